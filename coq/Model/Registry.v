(* C10 -- executable model of the per-call bookkeeping of one live grpclib connection (NO proofs here).

   What is modelled (source: /repo/grpclib/{protocol,client,server}.py as they are now):
   * both endpoints' registry `EventsProcessor.streams` (keys only): `creg` (client) / `sreg` (server);
     `register` adds the key, `release_stream` pops it (idempotent) and sets `stream_close_waiter`;
   * hyper-h2's stream accounting AS GRPCLIB USES IT (modelled, NOT verified): per stream and per
     endpoint five facts {opened, END_STREAM sent, END_STREAM received, RST sent, RST received}; the h2
     state is a function of them (idle / open / half-closed local / half-closed remote / closed), a
     stream counts against MAX_CONCURRENT_STREAMS iff it is opened and not closed
     (`H2Connection.open_outbound_streams` / `open_inbound_streams`), `send_headers` for a new stream
     raises TooManyStreamsError iff `open_outbound >= remote max_concurrent_streams`; frames for a
     closed / unknown stream change nothing (h2 answers some of them with an automatic RST_STREAM, which
     is again a frame for a closed stream at the other end; not modelled);
   * the wire: per call and per direction a FIFO queue of the frames that matter for the accounting:
     request HEADERS (with or without END_STREAM), END_STREAM (on DATA or on trailers), RST_STREAM; plus
     one FIFO of SETTINGS frames carrying MAX_CONCURRENT_STREAMS (server -> client).  Frames of one
     stream keep their order; the order between different streams (and SETTINGS) is left free, which
     contains every total (TCP) order: the theorems, stated for all histories of the model, cover all
     histories of a real connection.  DATA / response HEADERS without END_STREAM do not change any h2
     stream state and are left out;
   * `Connection.stream_close_waiter` (asyncio.Event) with asyncio's wake rule: `set()` makes every
     current waiter runnable (CWaiting -> CWoken) and a woken waiter stays runnable when the flag is
     cleared again before it runs; the retry loop of `protocol.Stream.send_request`
     (`clear(); await wait(); continue`);
   * client call life cycle: `send_request` attempts (COpenTry), END_STREAM (CSendEnd), `cancel()`
     (CCancel), `Stream.__aexit__` (CExit: RST if still closable, then release);
   * server handler life cycle: accept on request HEADERS (register + task), `send_trailing_metadata`
     (STrailers: END_STREAM, then RST when the status is not OK and the stream is still closable -- also
     `_abort` and trailers-only), `Stream.cancel()` (SCancel), the end of `request_handler`
     (SExit k: server `Stream.__aexit__` + the `finally: release_stream()` / the done-callback of
     `Handler.accept`), the server announcing MAX_CONCURRENT_STREAMS (SSettings).

   * pause_writing / resume_writing of the client transport (CPause / CResume) as far as they change WHAT
     is done: `reset_nowait` at context exit calls h2 reset_stream but does not write while paused, the
     frame waits in h2's buffer (k_held) for the next write of any kind (CFlush: data_received's flush,
     another call's write, an ack ...; when that happens is left to the history) and at the latest for
     `resume_writing`, which flushes (CResume).  That every other
     client op first awaits write_ready only delays those ops; the model allows them at any time, which
     adds histories.  The server's transport likewise (its reset_nowait always follows a completed
     `await write_ready.wait()` without suspension in between);

   Not modelled: connection loss (the property is about a live connection), flow control, message
   contents, which await a client call is blocked in (every client op is possible whenever the phase
   allows it, which only adds behaviours). *)
From Coq Require Import ZArith List Bool Arith.
Import ListNotations.

(* ---- h2 stream accounting (abstraction of h2.stream.H2StreamStateMachine) ---- *)
Record h2s := { h_op : bool; h_se : bool; h_re : bool; h_sr : bool; h_rr : bool }.
Definition h2_idle : h2s := Build_h2s false false false false false.
Definition h2_closed (h : h2s) : bool := h_sr h || h_rr h || (h_se h && h_re h).
(* counts against MAX_CONCURRENT_STREAMS: open or half-closed (h2.stream.H2Stream.open) *)
Definition h2_open (h : h2s) : bool := h_op h && negb (h2_closed h).

Inductive h2name := Idle | Open | HalfLocal | HalfRemote | Closed.
Definition h2_state (h : h2s) : h2name :=
  if negb (h_op h) then Idle
  else if h2_closed h then Closed
  else if h_se h then HalfLocal
  else if h_re h then HalfRemote else Open.

Definition h2_new (es_sent es_recv : bool) : h2s := Build_h2s true es_sent es_recv false false.
Definition h2_send_end (h : h2s) : h2s :=
  if h2_open h then Build_h2s (h_op h) true (h_re h) (h_sr h) (h_rr h) else h.
Definition h2_recv_end (h : h2s) : h2s :=
  if h2_open h then Build_h2s (h_op h) (h_se h) true (h_sr h) (h_rr h) else h.
Definition h2_send_rst (h : h2s) : h2s :=
  if h2_open h then Build_h2s (h_op h) (h_se h) (h_re h) true (h_rr h) else h.
Definition h2_recv_rst (h : h2s) : h2s :=
  if h2_open h then Build_h2s (h_op h) (h_se h) (h_re h) (h_sr h) true else h.

Inductive fk := KHeaders (es : bool) | KEnd | KRst.

(* ---- calls ---- *)
Inductive cphase := CNew | CWaiting | CWoken | COpened | CExited.
(* SExited leak: leak = the handler ended without any terminal frame while its stream was not closed *)
Inductive sphase := SNone | SRunning | SExited (leak : bool).

Record call := {
  k_cph : cphase;        (* client call *)
  k_ch : h2s;            (* the client endpoint's h2 view of the call's stream *)
  k_sph : sphase;        (* server handler task *)
  k_sh : h2s;            (* the server endpoint's h2 view *)
  k_trail : bool;        (* server Stream._send_trailing_metadata_done *)
  k_cancel : bool;       (* server Stream._cancel_done *)
  k_qc : list fk;        (* frames of this stream in flight client -> server *)
  k_qs : list fk;        (* frames of this stream in flight server -> client *)
  k_held : bool          (* an RST_STREAM of this stream sits in the client's h2 send buffer: reset_nowait
                            ran while writing was paused and nothing has been written since *)
}.
Definition call0 : call := Build_call CNew h2_idle SNone h2_idle false false [] [] false.

Record state := {
  calls : list call;
  creg : list nat;       (* keys of the client's EventsProcessor.streams *)
  sreg : list nat;       (* keys of the server's EventsProcessor.streams *)
  maxc : Z;              (* client h2: remote_settings.max_concurrent_streams (as last received) *)
  flag : bool;           (* client Connection.stream_close_waiter flag *)
  sq : list Z;           (* SETTINGS(MAX_CONCURRENT_STREAMS) frames in flight server -> client *)
  cpaused : bool         (* client transport called pause_writing (write_ready cleared) *)
}.

Definition init (n : nat) (m : Z) : state := Build_state (repeat call0 n) [] [] m false [] false.

(* how request_handler ends: KOk = returned (OK trailers unless already sent); KErr = GRPCError / other
   Exception / deadline / unary reply missing (non-OK trailers then RST); KBase = a BaseException that is
   not an Exception left request_handler, so nothing is sent: it came out of the handler body (D4), or it
   is a cancellation that landed INSIDE Stream.__aexit__ while send_trailing_metadata was waiting for
   write_ready (server transport paused) after the body had returned or raised an Exception (D48), or
   the task was cancelled before its first step.  (send_headers waits first and then sends END_STREAM and
   the RST without suspending, so the terminal response is sent completely or not at all.) *)
Inductive exitk := KOk | KErr | KBase.

Inductive op :=
| COpenTry (c : nat) (es : bool)
| CSendEnd (c : nat)
| CCancel (c : nat)
| CExit (c : nat)
| DeliverC2S (c : nat)
| DeliverS2C (c : nat)
| DeliverSettings
| STrailers (c : nat) (nonok : bool)
| SCancel (c : nat)
| SExit (c : nat) (k : exitk)
| SSettings (n : Z)
| CPause
| CResume
| CFlush.

Inductive out := ONone | OOpened | OBlocked | ORaise | OSkip | OEmpty.

(* ---- helpers ---- *)
Fixpoint upd {A} (n : nat) (f : A -> A) (l : list A) : list A :=
  match l, n with
  | [], _ => []
  | x :: r, O => f x :: r
  | x :: r, S m => x :: upd m f r
  end.

Fixpoint count {A} (p : A -> bool) (l : list A) : nat :=
  match l with [] => O | x :: r => (if p x then 1 else 0) + count p r end.

Definition open_out (s : state) : nat := count (fun k => h2_open (k_ch k)) (calls s).
Definition open_in (s : state) : nat := count (fun k => h2_open (k_sh k)) (calls s).

Fixpoint remove_nat (c : nat) (l : list nat) : list nat :=
  match l with [] => [] | x :: r => if Nat.eqb x c then remove_nat c r else x :: remove_nat c r end.

Definition set_cph (p : cphase) (k : call) : call :=
  Build_call p (k_ch k) (k_sph k) (k_sh k) (k_trail k) (k_cancel k) (k_qc k) (k_qs k) (k_held k).
(* the client endpoint changes its h2 view and writes frames *)
Definition cl_act (h : h2s) (fs : list fk) (k : call) : call :=
  Build_call (k_cph k) h (k_sph k) (k_sh k) (k_trail k) (k_cancel k) (k_qc k ++ fs) (k_qs k) (k_held k).
(* the server endpoint changes its h2 view / flags and writes frames *)
Definition sv_act (p : sphase) (h : h2s) (tr cn : bool) (fs : list fk) (k : call) : call :=
  Build_call (k_cph k) (k_ch k) p h tr cn (k_qc k) (k_qs k ++ fs) (k_held k).

Definition set_held (b : bool) (k : call) : call :=
  Build_call (k_cph k) (k_ch k) (k_sph k) (k_sh k) (k_trail k) (k_cancel k) (k_qc k) (k_qs k) b.
(* a write of the client's h2 send buffer: every RST_STREAM held back reaches the wire *)
Definition flush1 (k : call) : call :=
  if k_held k then set_held false (cl_act (k_ch k) [KRst] k) else k.

(* asyncio.Event.set(): every waiter becomes runnable *)
Definition wake (k : call) : call :=
  match k_cph k with CWaiting => set_cph CWoken k | _ => k end.

Definition with_calls (s : state) (l : list call) : state :=
  Build_state l (creg s) (sreg s) (maxc s) (flag s) (sq s) (cpaused s).

(* server: send END_STREAM on trailers, then RST when asked and still closable.
   Returns the new h2 view and the frames written. *)
Definition srv_trailers (nonok : bool) (h : h2s) : h2s * list fk :=
  let h1 := h2_send_end h in
  if nonok && h2_open h1 then (h2_send_rst h1, [KEnd; KRst]) else (h1, [KEnd]).

(* a frame arrives at the server endpoint *)
Definition srv_recv (f : fk) (k : call) : call * bool (* registered now *) :=
  let k0 := Build_call (k_cph k) (k_ch k) (k_sph k) (k_sh k) (k_trail k) (k_cancel k)
                       (tl (k_qc k)) (k_qs k) (k_held k) in
  match f with
  | KHeaders es =>
    if h_op (k_sh k) then (k0, false)
    else
      (* RequestReceived: create_stream, register, handler.accept (task created) *)
      (Build_call (k_cph k) (k_ch k) SRunning (h2_new false es) false false (tl (k_qc k)) (k_qs k) (k_held k), true)
  | KEnd => (Build_call (k_cph k) (k_ch k) (k_sph k) (h2_recv_end (k_sh k)) (k_trail k) (k_cancel k)
                        (tl (k_qc k)) (k_qs k) (k_held k), false)
  | KRst => (Build_call (k_cph k) (k_ch k) (k_sph k) (h2_recv_rst (k_sh k)) (k_trail k) (k_cancel k)
                        (tl (k_qc k)) (k_qs k) (k_held k), false)
  end.

(* a frame arrives at the client endpoint *)
Definition cl_recv (f : fk) (k : call) : call :=
  let h := match f with
           | KHeaders _ => k_ch k
           | KEnd => h2_recv_end (k_ch k)
           | KRst => h2_recv_rst (k_ch k)
           end in
  Build_call (k_cph k) h (k_sph k) (k_sh k) (k_trail k) (k_cancel k) (k_qc k) (tl (k_qs k)) (k_held k).

(* ---- one step ---- *)
Definition step (s : state) (o : op) : state * out :=
  match o with
  | COpenTry c es =>
    match nth_error (calls s) c with
    | None => (s, OSkip)
    | Some k =>
      match k_cph k with
      | CNew | CWoken =>
        if (Z.of_nat (open_out s) <? maxc s)%Z then
          (* h2 send_headers succeeded: init_stream, register, write *)
          (Build_state (upd c (fun k => set_cph COpened (cl_act (h2_new es false) [KHeaders es] k)) (calls s))
                       (c :: creg s) (sreg s) (maxc s) (flag s) (sq s) (cpaused s), OOpened)
        else
          (* TooManyStreamsError: stream_close_waiter.clear(); await stream_close_waiter.wait() *)
          (Build_state (upd c (set_cph CWaiting) (calls s)) (creg s) (sreg s) (maxc s) false (sq s)
                       (cpaused s), OBlocked)
      | _ => (s, OSkip)
      end
    end
  | CSendEnd c =>
    match nth_error (calls s) c with
    | None => (s, OSkip)
    | Some k =>
      match k_cph k with
      | COpened =>
        if h2_open (k_ch k) && negb (h_se (k_ch k)) then
          (with_calls s (upd c (cl_act (h2_send_end (k_ch k)) [KEnd]) (calls s)), ONone)
        else (s, ORaise)           (* h2 refuses: stream closed / already ended *)
      | _ => (s, OSkip)
      end
    end
  | CCancel c =>
    match nth_error (calls s) c with
    | None => (s, OSkip)
    | Some k =>
      match k_cph k with
      | COpened =>
        if h2_open (k_ch k) then
          (with_calls s (upd c (cl_act (h2_send_rst (k_ch k)) [KRst]) (calls s)), ONone)
        else (s, ORaise)           (* h2 reset_stream on a closed stream raises StreamClosedError *)
      | _ => (s, OSkip)
      end
    end
  | CExit c =>
    match nth_error (calls s) c with
    | None => (s, OSkip)
    | Some k =>
      match k_cph k with
      | COpened =>
        (* finally: if closable: reset_nowait(); release_stream(): pop the key, set the event.
           reset_nowait always calls h2 reset_stream (the stream is closed for the client's h2 at once)
           but writes only `if write_ready.is_set()`: while paused the RST_STREAM frame stays in h2's
           send buffer until something else writes (CFlush) *)
        let op := h2_open (k_ch k) in
        let fs := if op && negb (cpaused s) then [KRst] else [] in
        let hold := op && cpaused s in
        (Build_state
           (map wake (upd c (fun k => set_held (k_held k || hold)
                                        (set_cph CExited (cl_act (h2_send_rst (k_ch k)) fs k))) (calls s)))
           (remove_nat c (creg s)) (sreg s) (maxc s) true (sq s) (cpaused s), ONone)
      | CExited => (s, OSkip)
      | _ =>
        (* _send_request_done is false: __aexit__ returns at once; a waiter leaves the Event *)
        (with_calls s (upd c (set_cph CExited) (calls s)), ONone)
      end
    end
  | DeliverC2S c =>
    match nth_error (calls s) c with
    | None => (s, OSkip)
    | Some k =>
      match k_qc k with
      | [] => (s, OEmpty)
      | f :: _ =>
        let '(k', reg) := srv_recv f k in
        (Build_state (upd c (fun _ => k') (calls s)) (creg s)
                     (if reg then c :: sreg s else sreg s) (maxc s) (flag s) (sq s) (cpaused s), ONone)
      end
    end
  | DeliverS2C c =>
    match nth_error (calls s) c with
    | None => (s, OSkip)
    | Some k =>
      match k_qs k with
      | [] => (s, OEmpty)
      | f :: _ => (with_calls s (upd c (cl_recv f) (calls s)), ONone)
      end
    end
  | DeliverSettings =>
    match sq s with
    | [] => (s, OEmpty)
    | n :: rest =>
      (* RemoteSettingsChanged with MAX_CONCURRENT_STREAMS: stream_close_waiter.set() *)
      (Build_state (map wake (calls s)) (creg s) (sreg s) n true rest (cpaused s), ONone)
    end
  | STrailers c nonok =>
    match nth_error (calls s) c with
    | None => (s, OSkip)
    | Some k =>
      match k_sph k with
      | SRunning =>
        if k_trail k then (s, ORaise)                    (* 'Trailing metadata was already sent' *)
        else if negb (h2_open (k_sh k)) then (s, ORaise) (* StreamClosedError from send_headers *)
        else
          let '(h, fs) := srv_trailers nonok (k_sh k) in
          (with_calls s (upd c (sv_act SRunning h true (k_cancel k) fs) (calls s)), ONone)
      | _ => (s, OSkip)
      end
    end
  | SCancel c =>
    match nth_error (calls s) c with
    | None => (s, OSkip)
    | Some k =>
      match k_sph k with
      | SRunning =>
        if k_cancel k then (s, ORaise)                   (* 'Stream was already cancelled' *)
        else if negb (h2_open (k_sh k)) then (s, ORaise) (* h2 reset_stream raises *)
        else
          (with_calls s (upd c (sv_act SRunning (h2_send_rst (k_sh k)) (k_trail k) true [KRst]) (calls s)),
           ONone)
      | _ => (s, OSkip)
      end
    end
  | SExit c x =>
    match nth_error (calls s) c with
    | None => (s, OSkip)
    | Some k =>
      match k_sph k with
      | SRunning =>
        (* server Stream.__aexit__: nothing for a BaseException, nothing when trailers were sent / the
           stream was cancelled; StreamClosedError from send_trailing_metadata is swallowed *)
        let silent := match x with
                      | KBase => true
                      | _ => k_trail k || k_cancel k || negb (h2_open (k_sh k))
                      end in
        let '(h, fs) := if silent then (k_sh k, []) else
                          srv_trailers (match x with KErr => true | _ => false end) (k_sh k) in
        (* no terminal frame was ever sent and the stream still counts: it stays open *)
        let leak := h2_open h && negb (h_se h) in
        (* finally: release_stream() / done-callback *)
        (Build_state (upd c (sv_act (SExited leak) h (k_trail k || negb silent) (k_cancel k) fs) (calls s))
                     (creg s) (remove_nat c (sreg s)) (maxc s) (flag s) (sq s) (cpaused s), ONone)
      | _ => (s, OSkip)
      end
    end
  | SSettings n => (Build_state (calls s) (creg s) (sreg s) (maxc s) (flag s) (sq s ++ [n]) (cpaused s), ONone)
  | CPause => (Build_state (calls s) (creg s) (sreg s) (maxc s) (flag s) (sq s) true, ONone)
  | CResume =>
    (* Connection.resume_writing: write_ready.set(); flush() -- what reset_nowait left in h2's buffer
       while writing was paused is written now (repaired D45) *)
    (Build_state (map flush1 (calls s)) (creg s) (sreg s) (maxc s) (flag s) (sq s) false, ONone)
  | CFlush => (with_calls s (map flush1 (calls s)), ONone)
  end.

Definition run (ops : list op) (s : state) : state := fold_left (fun s o => fst (step s o)) ops s.

Fixpoint run_out (ops : list op) (s : state) : state * list out :=
  match ops with
  | [] => (s, [])
  | o :: r => let '(s1, x) := step s o in let '(s2, xs) := run_out r s1 in (s2, x :: xs)
  end.

(* ---- observables ---- *)
Fixpoint idx_where_from {A} (p : A -> bool) (i : nat) (l : list A) : list nat :=
  match l with [] => [] | x :: r => (if p x then [i] else []) ++ idx_where_from p (S i) r end.
Definition idx_where {A} (p : A -> bool) (l : list A) : list nat := idx_where_from p 0 l.

Definition is_waiting (k : call) : bool := match k_cph k with CWaiting => true | _ => false end.
Definition is_woken (k : call) : bool := match k_cph k with CWoken => true | _ => false end.
Definition is_opened (k : call) : bool := match k_cph k with COpened => true | _ => false end.
Definition is_cexited (k : call) : bool := match k_cph k with CExited => true | _ => false end.
Definition is_pending (k : call) : bool :=
  match k_cph k with CNew | CWaiting | CWoken => true | _ => false end.
Definition is_running (k : call) : bool := match k_sph k with SRunning => true | _ => false end.
Definition is_leak (k : call) : bool := match k_sph k with SExited true => true | _ => false end.
(* the client has closed its half of the stream on the wire (END_STREAM or RST written, or stream
   closed by the server) or never opened it *)
Definition client_half_closed (k : call) : bool :=
  negb (k_held k) && (negb (h_op (k_ch k)) || h_se (k_ch k) || h2_closed (k_ch k)).
Definition wire_empty (k : call) : bool :=
  match k_qc k, k_qs k with [], [] => true | _, _ => false end.

Definition waiting_count (s : state) : nat := count is_waiting (calls s).
Definition pending_count (s : state) : nat := count is_pending (calls s).
Definition opened_count (s : state) : nat := count is_opened (calls s).

(* no client task can move without a new stimulus from outside: nothing in flight, nobody runnable in the
   retry loop, and every opened call whose stream is already closed has left its context (such a call is
   never blocked for good: END_STREAM / RST wake all its awaits -- that is C04's subject) *)
Definition quiescent (s : state) : bool :=
  match sq s with
  | [] => forallb (fun k => wire_empty k && negb (is_woken k) &&
                            negb (is_opened k && h2_closed (k_ch k))) (calls s)
  | _ => false
  end.

Record snapshot := { n_creg : nat; n_sreg : nat; n_out : nat; n_in : nat;
                     l_waiting : list nat; l_woken : list nat; l_opened : list nat; l_leak : list nat;
                     v_maxc : Z; n_wire : nat; l_held : list nat; v_paused : bool }.
Definition snap (s : state) : snapshot :=
  Build_snapshot (length (creg s)) (length (sreg s)) (open_out s) (open_in s)
                 (idx_where is_waiting (calls s)) (idx_where is_woken (calls s))
                 (idx_where is_opened (calls s)) (idx_where is_leak (calls s))
                 (maxc s)
                 (length (sq s) + fold_right (fun k a => length (k_qc k) + length (k_qs k) + a) 0 (calls s))
                 (idx_where k_held (calls s)) (cpaused s).
