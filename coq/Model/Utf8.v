(* Model of CPython 3.12's UTF-8 codec as grpclib's grpc-message code uses it:
     str.encode('utf-8', 'strict')            (inside urllib.parse.quote)
     bytes.decode('utf-8', 'replace')         (inside urllib.parse.unquote)
   A Python str is a list of code points (Z); a bytes object is a list of Z in 0..255.
   The decoder is a transcription of Objects/stringlib/codecs.h:utf8_decode together with the
   error ranges chosen in Objects/unicodeobject.c:unicode_decode_utf8 ("invalid start byte": 1 byte,
   "invalid continuation byte": the 1, 2 or 3 bytes that were accepted, "unexpected end of data":
   the whole truncated tail) -- each error range becomes ONE U+FFFD and decoding resumes right
   after it (the `replace` handler).  Executable; no proofs here. *)
From Coq Require Import ZArith List Bool.
From GV Require Import Lib.Str.
Import ListNotations.
Open Scope Z_scope.

Definition REPL : Z := 65533.   (* U+FFFD *)

Definition is_surrogate (c : Z) : bool := in_range 55296 57343 c.            (* D800..DFFF *)
(* the code points a Python str may hold and UTF-8 can encode: 0..10FFFF minus the surrogates *)
Definition is_scalar (c : Z) : bool := in_range 0 55295 c || in_range 57344 1114111 c.
Definition scalars_ok (s : list Z) : bool := forallb is_scalar s.
(* any Python str at all: 0..10FFFF, lone surrogates allowed *)
Definition is_codepoint (c : Z) : bool := in_range 0 1114111 c.
Definition str_ok (s : list Z) : bool := forallb is_codepoint s.

Definition utf8_enc1 (c : Z) : list Z :=
  if c <? 128 then [c]
  else if c <? 2048 then [192 + c / 64; 128 + c mod 64]
  else if c <? 65536 then [224 + c / 4096; 128 + (c / 64) mod 64; 128 + c mod 64]
  else [240 + c / 262144; 128 + (c / 4096) mod 64; 128 + (c / 64) mod 64; 128 + c mod 64].

(* str.encode('utf-8', 'strict').  None = UnicodeEncodeError ("surrogates not allowed"); values
   outside 0..10FFFF cannot occur in a Python str and are refused as well. *)
Fixpoint utf8_encode (s : list Z) : option (list Z) :=
  match s with
  | [] => Some []
  | c :: r =>
      if is_scalar c then
        match utf8_encode r with
        | Some b => Some (utf8_enc1 c ++ b)
        | None => None
        end
      else None
  end.

Definition is_cont (b : Z) : bool := in_range 128 191 b.     (* IS_CONTINUATION_BYTE *)

(* bytes.decode('utf-8', 'replace') *)
Fixpoint utf8_decode_replace (l : list Z) : list Z :=
  match l with
  | [] => []
  | b0 :: r =>
      if b0 <? 128 then b0 :: utf8_decode_replace r
      else if b0 <? 194 then REPL :: utf8_decode_replace r      (* 80..BF continuation, C0/C1 fake ASCII: InvalidStart *)
      else if b0 <? 224 then                                     (* C2..DF: two bytes *)
        match r with
        | [] => [REPL]                                           (* unexpected end of data *)
        | b1 :: r1 =>
            if is_cont b1 then ((b0 - 192) * 64 + (b1 - 128)) :: utf8_decode_replace r1
            else REPL :: utf8_decode_replace r                   (* InvalidContinuation1 *)
        end
      else if b0 <? 240 then                                     (* E0..EF: three bytes *)
        match r with
        | [] => [REPL]
        | b1 :: r1 =>
            if negb (is_cont b1) || ((b0 =? 224) && (b1 <? 160))          (* E0 80..9F: fake 0000-07FF *)
               || ((b0 =? 237) && (160 <=? b1))                           (* ED A0..BF: surrogates *)
            then REPL :: utf8_decode_replace r                   (* InvalidContinuation1 *)
            else
              match r1 with
              | [] => [REPL]                                     (* unexpected end of data *)
              | b2 :: r2 =>
                  if is_cont b2
                  then ((b0 - 224) * 4096 + (b1 - 128) * 64 + (b2 - 128)) :: utf8_decode_replace r2
                  else REPL :: utf8_decode_replace r1            (* InvalidContinuation2 *)
              end
        end
      else if b0 <? 245 then                                     (* F0..F4: four bytes *)
        match r with
        | [] => [REPL]
        | b1 :: r1 =>
            if negb (is_cont b1) || ((b0 =? 240) && (b1 <? 144))          (* F0 80..8F: fake 0000-FFFF *)
               || ((b0 =? 244) && (144 <=? b1))                           (* F4 90..: above 10FFFF *)
            then REPL :: utf8_decode_replace r                   (* InvalidContinuation1 *)
            else
              match r1 with
              | [] => [REPL]
              | b2 :: r2 =>
                  if is_cont b2 then
                    match r2 with
                    | [] => [REPL]
                    | b3 :: r3 =>
                        if is_cont b3
                        then ((b0 - 240) * 262144 + (b1 - 128) * 4096 + (b2 - 128) * 64 + (b3 - 128))
                             :: utf8_decode_replace r3
                        else REPL :: utf8_decode_replace r2      (* InvalidContinuation3 *)
                    end
                  else REPL :: utf8_decode_replace r1            (* InvalidContinuation2 *)
              end
        end
      else REPL :: utf8_decode_replace r                         (* F5..FF: InvalidStart *)
  end.
