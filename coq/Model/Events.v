(* Model of grpclib/events.py: _EventMeta / _Event (slots, __payload__, __readonly__, __setattr__,
   interrupt), _Dispatch (__init__ with the _ident fast path, add_listener, __dispatch__), the hook
   methods of _DispatchCommonEvents / _DispatchServerEvents / _DispatchChannelEvents, and the shape
   of the hook call sites of client.py / server.py.

   The event classes (fields, payload) are Gen.Facts.event_classes; the hook methods, the dispatch
   class hierarchy, the class instantiated by Channel / Server and the call sites are
   Gen.FactsC18.* -- both regenerated from /repo on every run.

   Values held by event fields are abstract: a `value` is a list of integers.  Listeners are
   programs over three kinds of statements:
       event.f = v                      ASet f v guarded
       event.f = event.f + v            AApp f v guarded      (read-modify-write)
       event.interrupt()                AInterrupt
   `guarded` = the statement sits inside `try: ... except AttributeError: <record>`; an unguarded
   refused assignment propagates out of the listener, out of __dispatch__ and out of the hook.
   Names range over: fields of the event class, "__interrupted__" (the slot of _Event, assignable
   through _Event.__setattr__ because it is not in __readonly__), and names that are not attributes
   of the event object at all.  Names of class attributes / methods of the event (__payload__,
   interrupt, __class__ ...) are outside the model, and so is a read-modify-write of
   "__interrupted__" after a listener has assigned that name on the same event (the model's
   TypeError for `bool + tuple` is what happens while the slot holds the bool stored by _Event).

   No proofs here (the model must still run when a proof breaks). *)
From Coq Require Import ZArith List Bool.
From GV Require Import Lib.Str Gen.Facts Gen.FactsC18.
Import ListNotations.
Open Scope Z_scope.

Definition name := list Z.
Definition value := list Z.

(* ------------------------------------------------------------------------------------------------ *)
(* event classes: _EventMeta.__new__                                                                *)

Record eclass := { ec_name : name; ec_fields : list name; ec_payload : list name }.

Definition mk_eclass (row : name * list name * list name) : eclass :=
  {| ec_name := fst (fst row); ec_fields := snd (fst row); ec_payload := snd row |}.

Definition classes : list eclass := map mk_eclass event_classes.

Definition find_class (n : name) : option eclass :=
  find (fun c => zlist_eqb n (ec_name c)) classes.

(* params['__slots__'] = tuple(annotations); params['__readonly__'] = frozenset(name for name in
   annotations if name not in payload) *)
Definition readonly (c : eclass) : list name :=
  filter (fun f => negb (mem_str f (ec_payload c))) (ec_fields c).

(* "__interrupted__" *)
Definition interrupted_name : name :=
  [95; 95; 105; 110; 116; 101; 114; 114; 117; 112; 116; 101; 100; 95; 95].

(* ------------------------------------------------------------------------------------------------ *)
(* event instances: _Event                                                                          *)

(* ev_vals is the slot store: the first binding of a name is its current value *)
Record event := { ev_cls : eclass; ev_vals : list (name * value); ev_int : bool }.

Inductive exn := XAttr (* AttributeError *) | XType (* TypeError *).

Inductive fkind :=
| FReadOnly      (* annotated, not in __payload__: _Event.__setattr__ raises AttributeError *)
| FSlot          (* annotated and in __payload__: object.__setattr__ stores it *)
| FFlag          (* the __interrupted__ slot of _Event *)
| FNone.         (* no such slot and no __dict__: object.__setattr__ raises AttributeError *)

(* _Event.__setattr__: `if key in self.__readonly__: raise AttributeError` first, then
   object.__setattr__, which needs a slot *)
Definition field_kind (c : eclass) (f : name) : fkind :=
  if mem_str f (readonly c) then FReadOnly
  else if mem_str f (ec_fields c) then FSlot
  else if zlist_eqb f interrupted_name then FFlag
  else FNone.

Definition truthy (v : value) : bool := match v with [] => false | _ => true end.

Definition with_val (ev : event) (f : name) (v : value) : event :=
  {| ev_cls := ev_cls ev; ev_vals := (f, v) :: ev_vals ev; ev_int := ev_int ev |}.
Definition with_int (ev : event) (b : bool) : event :=
  {| ev_cls := ev_cls ev; ev_vals := ev_vals ev; ev_int := b |}.

(* event.f = v : None = AttributeError, the event is not touched *)
Definition set_field (ev : event) (f : name) (v : value) : option event :=
  match field_kind (ev_cls ev) f with
  | FReadOnly => None
  | FSlot => Some (with_val ev f v)
  | FFlag => Some (with_int ev (truthy v))        (* `if event.__interrupted__:` tests truthiness *)
  | FNone => None
  end.

(* event.f read by a listener (names as restricted above): a slot that holds a value *)
Definition get_field (ev : event) (f : name) : option value :=
  if mem_str f (ec_fields (ev_cls ev)) then assoc_str f (ev_vals ev) else None.

(* ------------------------------------------------------------------------------------------------ *)
(* listeners                                                                                        *)

Inductive action :=
| ASet (f : name) (v : value) (guarded : bool)
| AApp (f : name) (v : value) (guarded : bool)
| AInterrupt.

(* outcome of one statement: new event, "a guarded assignment was refused", exception that escapes *)
Definition refuse (ev : event) (guarded : bool) : event * bool * option exn :=
  if guarded then (ev, true, None) else (ev, false, Some XAttr).

Definition run_action (ev : event) (a : action) : event * bool * option exn :=
  match a with
  | AInterrupt => (with_int ev true, false, None)       (* super().__setattr__('__interrupted__', True) *)
  | ASet f v g =>
      match set_field ev f v with
      | Some ev' => (ev', false, None)
      | None => refuse ev g
      end
  | AApp f v g =>
      match field_kind (ev_cls ev) f with
      | FFlag => (ev, false, Some XType)                (* bool + tuple: TypeError, not caught by the guard *)
      | FNone => refuse ev g                            (* the read raises AttributeError *)
      | FReadOnly => refuse ev g                        (* the read may succeed, the write is refused *)
      | FSlot =>
          match get_field ev f with
          | None => refuse ev g                         (* unset slot: the read raises AttributeError *)
          | Some old =>
              match set_field ev f (old ++ v) with
              | Some ev' => (ev', false, None)
              | None => refuse ev g
              end
          end
      end
  end.

(* the statements of one listener, numbered from i; stops at the first escaping exception *)
Fixpoint run_actions (i : Z) (acts : list action) (ev : event) : event * list Z * option exn :=
  match acts with
  | [] => (ev, [], None)
  | a :: r =>
      match run_action ev a with
      | (ev', refused, Some e) => (ev', [], Some e)
      | (ev', refused, None) =>
          match run_actions (i + 1) r ev' with
          | (ev'', errs, x) => (ev'', (if refused then [i] else []) ++ errs, x)
          end
      end
  end.

Record listener := { l_id : Z; l_acts : list action }.

(* tuple(getattr(event, name) for name in event.__payload__) ; inr = AttributeError *)
Fixpoint payload_vals (vals : list (name * value)) (names : list name) : option (list value) :=
  match names with
  | [] => Some []
  | n :: r =>
      match assoc_str n vals, payload_vals vals r with
      | Some v, Some vs => Some (v :: vs)
      | _, _ => None
      end
  end.

Definition payload_out (ev : event) : list value + exn :=
  match payload_vals (ev_vals ev) (ec_payload (ev_cls ev)) with
  | Some vs => inl vs
  | None => inr XAttr
  end.

(* d_log: ids of the listeners invoked, in invocation order; d_errs: (listener id, statement index)
   of every guarded assignment that was refused; d_out: the tuple returned by __dispatch__, or the
   exception that propagates to the caller of the hook *)
Record dres := { d_log : list Z; d_errs : list (Z * Z); d_out : list value + exn }.

(*  for callback in self._listeners[event.__class__]:
        await callback(event)
        if event.__interrupted__: break
    return tuple(getattr(event, name) for name in event.__payload__)                               *)
Fixpoint dispatch (ls : list listener) (ev : event) : dres :=
  match ls with
  | [] => {| d_log := []; d_errs := []; d_out := payload_out ev |}
  | l :: rest =>
      match run_actions 0 (l_acts l) ev with
      | (ev', errs, Some e) =>
          {| d_log := [l_id l]; d_errs := map (fun i => (l_id l, i)) errs; d_out := inr e |}
      | (ev', errs, None) =>
          if ev_int ev' then
            {| d_log := [l_id l]; d_errs := map (fun i => (l_id l, i)) errs; d_out := payload_out ev' |}
          else
            let r := dispatch rest ev' in
            {| d_log := l_id l :: d_log r;
               d_errs := map (fun i => (l_id l, i)) errs ++ d_errs r;
               d_out := d_out r |}
      end
  end.

(* ------------------------------------------------------------------------------------------------ *)
(* hook methods and dispatch objects                                                                *)

Record hook := { h_cls : name; h_meth : name; h_event : name; h_pos : list name; h_kw : list name;
                 h_ctor : list (name * name) }.

Definition mk_hook (r : name * name * name * list name * list name * list (name * name)) : hook :=
  match r with
  | (c, m, e, p, k, ct) =>
      {| h_cls := c; h_meth := m; h_event := e; h_pos := p; h_kw := k; h_ctor := ct |}
  end.

Definition hooks : list hook := map mk_hook hook_methods.

Inductive side := Client | Server.

(* "client.py" / "server.py" *)
Definition side_file (s : side) : name :=
  match s with
  | Client => [99; 108; 105; 101; 110; 116; 46; 112; 121]
  | Server => [115; 101; 114; 118; 101; 114; 46; 112; 121]
  end.

(* the class instantiated as Channel.__dispatch__ / Server.__dispatch__ *)
Definition side_dispatch_class (s : side) : option name :=
  match find (fun t => zlist_eqb (fst (fst t)) (side_file s)) dispatch_targets with
  | Some t => Some (snd t)
  | None => None
  end.

Definition bases_of (c : name) : list name :=
  match assoc_str c dispatch_bases with Some bs => bs | None => [] end.

Fixpoint ancestors (fuel : nat) (c : name) : list name :=
  c :: match fuel with
       | O => []
       | S k => flat_map (ancestors k) (bases_of c)
       end.

(* _DispatchMeta.__new__: __dispatch_methods__ = those of the bases, then the class's own *)
Definition side_hooks (s : side) : list hook :=
  match side_dispatch_class s with
  | None => []
  | Some d => filter (fun h => mem_str (h_cls h) (ancestors 4 d)) hooks
  end.

Definition find_hook (hs : list hook) (m : name) : option hook :=
  find (fun h => zlist_eqb m (h_meth h)) hs.
Definition hook_for_event (hs : list hook) (e : name) : option hook :=
  find (fun h => zlist_eqb e (h_event h)) hs.

(* a _Dispatch instance: do_reg = the registrations in order (self._listeners, a defaultdict(list)
   keyed by event class, flattened); do_fast = the method names shadowed by _ident in __dict__ *)
Record dobj := { do_hooks : list hook; do_reg : list (name * listener); do_fast : list name }.

(* __init__: for name in self.__dispatch_methods__.values(): self.__dict__[name] = _ident *)
Definition new_dobj (hs : list hook) : dobj :=
  {| do_hooks := hs; do_reg := []; do_fast := map h_meth hs |}.

Definition listeners_of (d : dobj) (e : name) : list listener :=
  map snd (filter (fun r => zlist_eqb (fst r) e) (do_reg d)).

(* self.__dict__.pop(self.__dispatch_methods__[event_type], None)      -- None = KeyError, no change
   self._listeners[event_type].append(callback)                                                    *)
Definition add_listener (d : dobj) (e : name) (l : listener) : option dobj :=
  match hook_for_event (do_hooks d) e with
  | None => None
  | Some h =>
      Some {| do_hooks := do_hooks d;
              do_reg := do_reg d ++ [(e, l)];
              do_fast := filter (fun m => negb (zlist_eqb m (h_meth h))) (do_fast d) |}
  end.

Definition same_names (a b : list name) : bool :=
  Nat.eqb (length a) (length b) && forallb (fun x => mem_str x b) a && forallb (fun x => mem_str x a) b.

(* Python's binding of a call's arguments to the parameters of the hook method; None = TypeError *)
Definition bind_args (h : hook) (pos : list value) (kw : list (name * value))
  : option (list (name * value)) :=
  if negb (Nat.eqb (length pos) (length (h_pos h))) then None
  else if negb (same_names (map fst kw) (h_kw h)) then None
  else Some (combine (h_pos h) pos ++ kw).

Fixpoint bind_ctor (ctor : list (name * name)) (env : list (name * value))
  : option (list (name * value)) :=
  match ctor with
  | [] => Some []
  | (k, a) :: r =>
      match assoc_str a env, bind_ctor r env with
      | Some v, Some vs => Some ((k, v) :: vs)
      | _, _ => None
      end
  end.

(* Event(k=a, ...): _Event.__init__ asserts len(kwargs) == len(__slots__) and stores each keyword
   with object.__setattr__ (which needs a slot).  None = the construction fails. *)
Definition mk_event (h : hook) (env : list (name * value)) : option event :=
  match find_class (h_event h) with
  | None => None
  | Some c =>
      if negb (Nat.eqb (length (h_ctor h)) (length (ec_fields c))) then None
      else if negb (forallb (fun kv => mem_str (fst kv) (ec_fields c)) (h_ctor h)) then None
      else match bind_ctor (h_ctor h) env with
           | None => None
           | Some vals => Some {| ev_cls := c; ev_vals := vals; ev_int := false |}
           end
  end.

Inductive hres :=
| HNoMethod                (* AttributeError: the dispatch object has no such hook *)
| HBadCall                 (* TypeError from argument binding / failure constructing the event *)
| HRes (r : dres).

(* the method found on the class: `return await self.__dispatch__(Event(...))` *)
Definition call_slow (d : dobj) (h : hook) (pos : list value) (kw : list (name * value)) : hres :=
  match bind_args h pos kw with
  | None => HBadCall
  | Some env =>
      match mk_event h env with
      | None => HBadCall
      | Some ev => HRes (dispatch (listeners_of d (h_event h)) ev)
      end
  end.

(* `await d.m(pos..., kw...)`: the instance __dict__ is looked up first (async def _ident( *args, **_ ):
   return args), then the class *)
Definition call_hook (d : dobj) (m : name) (pos : list value) (kw : list (name * value)) : hres :=
  if mem_str m (do_fast d) then HRes {| d_log := []; d_errs := []; d_out := inl pos |}
  else match find_hook (do_hooks d) m with
       | None => HNoMethod
       | Some h => call_slow d h pos kw
       end.

(* ------------------------------------------------------------------------------------------------ *)
(* specification vocabulary (used by the theorems; nothing below is executed by the driver except    *)
(* through the functions above)                                                                     *)

Definition is_some {A} (o : option A) : bool := match o with Some _ => true | None => false end.

(* every annotated field holds a value (what _Event.__init__ establishes) *)
Definition wf_event (ev : event) : bool :=
  forallb (fun f => is_some (assoc_str f (ev_vals ev))) (ec_fields (ev_cls ev)).

(* control effect of one statement, from the class and the statement alone *)
Inductive ctl := CNone | CFlag (b : bool) | CRaise (e : exn).

Definition refuse_ctl (g : bool) : ctl := if g then CNone else CRaise XAttr.

Definition action_ctl (c : eclass) (a : action) : ctl :=
  match a with
  | AInterrupt => CFlag true
  | ASet f v g =>
      match field_kind c f with
      | FSlot => CNone
      | FFlag => CFlag (truthy v)
      | _ => refuse_ctl g
      end
  | AApp f v g =>
      match field_kind c f with
      | FSlot => CNone
      | FFlag => CRaise XType
      | _ => refuse_ctl g
      end
  end.

(* (the __interrupted__ flag after the statements, the exception that escapes) *)
Fixpoint acts_ctl (c : eclass) (acts : list action) (flag : bool) : bool * option exn :=
  match acts with
  | [] => (flag, None)
  | a :: r =>
      match action_ctl c a with
      | CNone => acts_ctl c r flag
      | CFlag b => acts_ctl c r b
      | CRaise e => (flag, Some e)
      end
  end.

Definition l_raises (c : eclass) (l : listener) : option exn := snd (acts_ctl c (l_acts l) false).
Definition l_interrupts (c : eclass) (l : listener) : bool := fst (acts_ctl c (l_acts l) false).
(* the listener ends the dispatch loop: it leaves the event interrupted, or an exception escapes *)
Definition l_stops (c : eclass) (l : listener) : bool := l_interrupts c l || is_some (l_raises c l).

(* the prefix of a list up to and including the first element satisfying p *)
Fixpoint upto {A} (p : A -> bool) (l : list A) : list A :=
  match l with
  | [] => []
  | x :: r => x :: (if p x then [] else upto p r)
  end.

(* listeners that only call interrupt() and/or assign payload fields *)
Definition plain_action (c : eclass) (a : action) : bool :=
  match a with
  | AInterrupt => true
  | ASet f _ _ | AApp f _ _ => match field_kind c f with FSlot => true | _ => false end
  end.
Definition plain (c : eclass) (l : listener) : bool := forallb (plain_action c) (l_acts l).
Definition calls_interrupt (l : listener) : bool :=
  existsb (fun a => match a with AInterrupt => true | _ => false end) (l_acts l).

(* listeners that change nothing: every statement is a guarded assignment that is refused *)
Definition inert_action (c : eclass) (a : action) : bool :=
  match a with
  | AInterrupt => false
  | ASet f _ g | AApp f _ g =>
      g && match field_kind c f with FReadOnly | FNone => true | _ => false end
  end.
Definition inert (c : eclass) (l : listener) : bool := forallb (inert_action c) (l_acts l).

(* the statements executed by a listener that raises nothing: all of them *)
Definition acts_of (ls : list listener) : list action := flat_map l_acts ls.

(* what a sequence of statements does to ONE field: constant assignments overwrite, read-modify-write
   statements extend ("last write wins" is the special case without AApp) *)
Definition write_of (f : name) (cur : value) (a : action) : value :=
  match a with
  | ASet f' w _ => if zlist_eqb f' f then w else cur
  | AApp f' w _ => if zlist_eqb f' f then cur ++ w else cur
  | AInterrupt => cur
  end.
Definition final_value (f : name) (acts : list action) (v0 : value) : value :=
  fold_left (write_of f) acts v0.

Definition field_or_nil (ev : event) (f : name) : value :=
  match assoc_str f (ev_vals ev) with Some v => v | None => [] end.

(* the event after one listener / after a list of listeners ran to completion one after another *)
Definition ev_after (l : listener) (ev : event) : event := fst (fst (run_actions 0 (l_acts l) ev)).
Definition effect (ls : list listener) (ev : event) : event :=
  fold_left (fun e l => ev_after l e) ls ev.
Fixpoint first_raise (c : eclass) (ls : list listener) : option exn :=
  match ls with
  | [] => None
  | l :: r => match l_raises c l with Some e => Some e | None => first_raise c r end
  end.

(* the value of the last constant assignment to f, if any *)
Fixpoint last_set (f : name) (acts : list action) : option value :=
  match acts with
  | [] => None
  | a :: r =>
      match last_set f r with
      | Some v => Some v
      | None => match a with ASet f' w _ => if zlist_eqb f' f then Some w else None | _ => None end
      end
  end.
Definition no_app (acts : list action) : bool :=
  forallb (fun a => match a with AApp _ _ _ => false | _ => true end) acts.

(* a class as _EventMeta expects it: payload names are annotated fields, no name twice *)
Fixpoint nodup_str (l : list name) : bool :=
  match l with [] => true | x :: r => negb (mem_str x r) && nodup_str r end.
Definition class_ok (c : eclass) : bool :=
  forallb (fun p => mem_str p (ec_fields c)) (ec_payload c)
  && nodup_str (ec_fields c) && nodup_str (ec_payload c).

(* a hook method whose fast path (_ident returns the positional arguments) is the slow path with
   no listeners: positional parameters = __payload__ of its event class, the constructor is called
   with field=parameter for exactly the annotated fields, parameters distinct *)
Definition hook_ok (h : hook) : bool :=
  match find_class (h_event h) with
  | None => false
  | Some c =>
      class_ok c
      && Nat.eqb (length (h_pos h)) (length (ec_payload c))
      && forallb (fun pq => zlist_eqb (fst pq) (snd pq)) (combine (h_pos h) (ec_payload c))
      && Nat.eqb (length (h_ctor h)) (length (ec_fields c))
      && forallb (fun kf => zlist_eqb (fst (fst kf)) (snd kf) && zlist_eqb (snd (fst kf)) (snd kf))
                 (combine (h_ctor h) (ec_fields c))
      && nodup_str (h_pos h ++ h_kw h)
      && forallb (fun f => mem_str f (h_pos h ++ h_kw h)) (ec_fields c)
  end.

(* _DispatchMeta asserts that no event class is dispatched by two methods; method names are keys of
   a class namespace *)
Definition hooks_distinct (hs : list hook) : bool :=
  nodup_str (map h_meth hs) && nodup_str (map h_event hs).

(* a call as the use sites make it *)
Definition good_call (h : hook) (pos : list value) (kw : list (name * value)) : bool :=
  Nat.eqb (length pos) (length (h_pos h)) && same_names (map fst kw) (h_kw h)
  && nodup_str (map fst kw).

(* dispatch objects reachable from a fresh one by add_listener calls (refused ones change nothing) *)
Fixpoint register (d : dobj) (regs : list (name * listener)) : dobj :=
  match regs with
  | [] => d
  | (e, l) :: r => register (match add_listener d e l with Some d' => d' | None => d end) r
  end.

(* ---- use sites --------------------------------------------------------------------------------- *)

Definition site := (name * name * name * list name * list name * bool *
                    list (name * list (list name)))%type.
Definition s_file (s : site) : name := match s with (f, _, _, _, _, _, _) => f end.
Definition s_hook (s : site) : name := match s with (_, _, h, _, _, _, _) => h end.
Definition s_pos (s : site) : list name := match s with (_, _, _, p, _, _, _) => p end.
Definition s_kw (s : site) : list name := match s with (_, _, _, _, k, _, _) => k end.
Definition s_destructured (s : site) : bool := match s with (_, _, _, _, _, d, _) => d end.
Definition s_targets (s : site) : list (name * list (list name)) :=
  match s with (_, _, _, _, _, _, t) => t end.

Definition side_of_file (f : name) : option side :=
  if zlist_eqb f (side_file Client) then Some Client
  else if zlist_eqb f (side_file Server) then Some Server else None.

(* what the property says happens next with each returned payload element: "metadata sent, message
   sent or returned, handler invoked" -- (side, hook, position in the payload) -> consumer tag *)
Definition t_call_encode_metadata : name :=   (* "call:encode_metadata" *)
  [99; 97; 108; 108; 58; 101; 110; 99; 111; 100; 101; 95; 109; 101; 116; 97; 100; 97; 116; 97].
Definition t_call_send_message : name :=      (* "call:send_message" *)
  [99; 97; 108; 108; 58; 115; 101; 110; 100; 95; 109; 101; 115; 115; 97; 103; 101].
Definition t_return : name := [114; 101; 116; 117; 114; 110].      (* "return" *)
Definition t_invoke : name := [105; 110; 118; 111; 107; 101].      (* "invoke" *)
Definition t_call_method_func : name :=       (* "call:@1": passed to the 2nd name bound by the same site *)
  [99; 97; 108; 108; 58; 64; 49].
Definition t_assign_initial : name :=          (* "assign:self.initial_metadata" *)
  [97; 115; 115; 105; 103; 110; 58; 115; 101; 108; 102; 46; 105; 110; 105; 116; 105; 97; 108; 95;
   109; 101; 116; 97; 100; 97; 116; 97].
Definition t_assign_trailing : name :=         (* "assign:self.trailing_metadata" *)
  [97; 115; 115; 105; 103; 110; 58; 115; 101; 108; 102; 46; 116; 114; 97; 105; 108; 105; 110; 103;
   95; 109; 101; 116; 97; 100; 97; 116; 97].

Definition n_send_request : name := [115; 101; 110; 100; 95; 114; 101; 113; 117; 101; 115; 116].
Definition n_send_message : name := [115; 101; 110; 100; 95; 109; 101; 115; 115; 97; 103; 101].
Definition n_recv_message : name := [114; 101; 99; 118; 95; 109; 101; 115; 115; 97; 103; 101].
Definition n_recv_request : name := [114; 101; 99; 118; 95; 114; 101; 113; 117; 101; 115; 116].
Definition n_recv_initial_metadata : name :=
  [114; 101; 99; 118; 95; 105; 110; 105; 116; 105; 97; 108; 95; 109; 101; 116; 97; 100; 97; 116; 97].
Definition n_recv_trailing_metadata : name :=
  [114; 101; 99; 118; 95; 116; 114; 97; 105; 108; 105; 110; 103; 95; 109; 101; 116; 97; 100; 97; 116; 97].
Definition n_send_initial_metadata : name :=
  [115; 101; 110; 100; 95; 105; 110; 105; 116; 105; 97; 108; 95; 109; 101; 116; 97; 100; 97; 116; 97].
Definition n_send_trailing_metadata : name :=
  [115; 101; 110; 100; 95; 116; 114; 97; 105; 108; 105; 110; 103; 95; 109; 101; 116; 97; 100; 97; 116; 97].

Definition expected_consumers (s : side) : list (name * list name) :=
  match s with
  | Client => [ (n_send_request, [t_call_encode_metadata]);
                (n_send_message, [t_call_send_message]);
                (n_recv_message, [t_return]);
                (n_recv_initial_metadata, [t_assign_initial]);
                (n_recv_trailing_metadata, [t_assign_trailing]) ]
  | Server => [ (n_recv_request, [t_call_method_func; t_invoke]);
                (n_recv_message, [t_return]);
                (n_send_message, [t_call_send_message]);
                (n_send_initial_metadata, [t_call_encode_metadata]);
                (n_send_trailing_metadata, [t_call_encode_metadata]) ]
  end.

(* every bound target has a later read that is consumed the expected way *)
Fixpoint targets_consumed (ts : list (name * list (list name))) (expect : list name) : bool :=
  match ts, expect with
  | [], [] => true
  | (_, uses) :: ts', e :: expect' => existsb (fun u => mem_str e u) uses && targets_consumed ts' expect'
  | _, _ => false
  end.

Definition site_ok (s : site) : bool :=
  match side_of_file (s_file s) with
  | None => false
  | Some sd =>
      match find_hook (side_hooks sd) (s_hook s), assoc_str (s_hook s) (expected_consumers sd) with
      | Some h, Some expect =>
          s_destructured s
          && Nat.eqb (length (s_pos s)) (length (h_pos h))
          && Nat.eqb (length (s_targets s)) (length (h_pos h))
          && same_names (s_kw s) (h_kw h) && nodup_str (s_kw s)
          && targets_consumed (s_targets s) expect
      | _, _ => false
      end
  end.

(* every hook of a side is called somewhere in that side's file, and every hook has an entry in
   the expectation table *)
Definition side_covered (sd : side) : bool :=
  forallb (fun h => existsb (fun s => zlist_eqb (s_file s) (side_file sd)
                                      && zlist_eqb (s_hook s) (h_meth h)) hook_sites
                    && is_some (assoc_str (h_meth h) (expected_consumers sd)))
          (side_hooks sd).

(* ---- entry points of the extracted driver ------------------------------------------------------ *)

Definition obj_for (s : side) : dobj := new_dobj (side_hooks s).
Definition sites_all_ok : bool :=
  forallb site_ok hook_sites && side_covered Client && side_covered Server
  && forallb hook_ok hooks && forallb class_ok classes
  && hooks_distinct (side_hooks Client) && hooks_distinct (side_hooks Server).
