(* Model of CPython 3.12's  int(s)  for a str argument and base 10 (Objects/longobject.c:
   PyLong_FromUnicodeObject -> _PyUnicode_TransformDecimalAndSpaceToASCII -> PyLong_FromString):
     * every code point >= 127 that is Unicode whitespace becomes ' ', every Unicode decimal digit
       (category Nd) becomes its ASCII digit, any other code point >= 127 makes the conversion fail;
     * leading C-locale whitespace (9..13, 32 -- NOT 28..31) is skipped, one optional sign, then
       digits with single underscores strictly between digits, then trailing whitespace, then the end;
     * more than 4300 digits (sys.int_max_str_digits, leading zeros included) is a ValueError.
   Strings are lists of code points.  [py_int s = None] stands for ValueError.  Executable; no proofs.
   The two Unicode tables are those of the running interpreter (unicodedata 15.0.0): every Nd run has
   ten consecutive code points with values 0..9, so a run is given by its first code point; the
   correspondence check compares them with int() on every code point. *)
From Coq Require Import ZArith List Bool.
From GV Require Import Lib.Str.
Import ListNotations.
Open Scope Z_scope.

(* first code point of every run of ten decimal digits *)
Definition digit_starts : list Z :=
  [48; 1632; 1776; 1984; 2406; 2534; 2662; 2790; 2918; 3046; 3174; 3302; 3430; 3558; 3664; 3792;
   3872; 4160; 4240; 6112; 6160; 6470; 6608; 6784; 6800; 6992; 7088; 7232; 7248; 42528; 43216;
   43264; 43472; 43504; 43600; 44016; 65296; 66720; 68912; 69734; 69872; 69942; 70096; 70384;
   70736; 70864; 71248; 71360; 71472; 71904; 72016; 72784; 73040; 73120; 73552; 92768; 92864;
   93008; 120782; 120792; 120802; 120812; 120822; 123200; 123632; 124144; 125264; 130032].

Fixpoint digit_in (starts : list Z) (c : Z) : option Z :=
  match starts with
  | [] => None
  | s :: r => if in_range s (s + 9) c then Some (c - s) else digit_in r c
  end.

(* Py_UNICODE_TODECIMAL after the ASCII fast path *)
Definition digit_val (c : Z) : option Z := digit_in digit_starts c.

(* what int() treats as blank: Py_ISSPACE on code points < 127, Py_UNICODE_ISSPACE on the others *)
Definition py_space (c : Z) : bool :=
  in_range 9 13 c || (c =? 32) || (c =? 133) || (c =? 160) || (c =? 5760) || in_range 8192 8202 c
  || (c =? 8232) || (c =? 8233) || (c =? 8239) || (c =? 8287) || (c =? 12288).

Definition MAX_STR_DIGITS : Z := 4300.

Fixpoint lstrip (s : list Z) : list Z :=
  match s with
  | c :: r => if py_space c then lstrip r else s
  | [] => []
  end.

(* digits and underscores; [prev_us]: the previous character was '_'.
   Some (value, number of digits, rest) with rest = [] or starting with a character that is neither a
   digit nor '_';  None: an underscore that is not strictly between two digits. *)
Fixpoint scan (s : list Z) (acc ndig : Z) (prev_us : bool) : option (Z * Z * list Z) :=
  match s with
  | [] => if prev_us then None else Some (acc, ndig, [])
  | c :: r =>
      match digit_val c with
      | Some d => scan r (acc * 10 + d) (ndig + 1) false
      | None =>
          if c =? 95 then (if prev_us then None else scan r acc ndig true)
          else if prev_us then None else Some (acc, ndig, s)
      end
  end.

Definition py_int_unsigned (s : list Z) : option Z :=
  match s with
  | [] => None
  | c :: _ =>
      match digit_val c with
      | None => None                                   (* empty digit string, or a leading '_' *)
      | Some _ =>
          match scan s 0 0 false with
          | None => None
          | Some (v, n, rest) =>
              if MAX_STR_DIGITS <? n then None
              else match lstrip rest with [] => Some v | _ :: _ => None end
          end
      end
  end.

Definition py_int (s : list Z) : option Z :=
  match lstrip s with
  | 43 :: r => py_int_unsigned r                                          (* '+' *)
  | 45 :: r => match py_int_unsigned r with Some v => Some (- v) | None => None end    (* '-' *)
  | r => py_int_unsigned r
  end.

(* str(k) for k >= 0, most significant digit first (what a conforming peer sends) *)
Fixpoint dec_digits (fuel : nat) (k : Z) (acc : list Z) : list Z :=
  match fuel with
  | O => acc
  | S f => if k <? 10 then (48 + k) :: acc else dec_digits f (k / 10) ((48 + k mod 10) :: acc)
  end.
Definition py_str_nat (k : Z) : list Z := dec_digits 64 k [].
