(* Model of grpclib.protocol.Buffer (add / eof / read) and of grpclib.stream.recv_message on top of
   it, following the code of /repo line by line.  Executable definitions only (no proofs).

   class Buffer:
       _eof = False; _unacked = Queue(); _acked = deque(); _acked_size = 0
       def add(self, data, ack_size):
           if not ack_size: return                       # (repair of D1: empty un-padded DATA frame)
           self._unacked.put_nowait(UnackedData(data, len(data), ack_size))
       def eof(self):
           self._unacked.put_nowait(UnackedData(b'', 0, 0)); self._eof = True
       async def read(self, size):  ... see read_start / fill_get / finish below

   A read is a coroutine: it can suspend in `await self._unacked.get()`.  It is modelled as a
   resumable step function: [read_start] runs the coroutine from its first line until it returns,
   raises, or blocks in get(); [read_resume] continues a read blocked in get() (asyncio.Queue.get
   returns the head item once one exists; when the queue is still empty the reader stays blocked).
   Between the two, other code (Buffer.add / Buffer.eof called from data_received) may run.
   One reader at a time (recv_message is called sequentially by the owner of the stream). *)
From Coq Require Import ZArith List Bool.
From GV Require Import Model.Framing.
Import ListNotations.
Open Scope Z_scope.

(* UnackedData(data, data_size = len(data), ack_size) *)
Record item := mk_item { i_data : bytes; i_ack : Z }.
Definition eof_marker : item := mk_item [] 0.

Record buf := mk_buf {
  unacked : list item;       (* asyncio.Queue, head first *)
  acked : list bytes;        (* deque of AckedData (memoryview, size), head first *)
  acked_size : Z;
  eof_flag : bool }.

Definition buf_init : buf := mk_buf [] [] 0 false.

Definition add (d : bytes) (a : Z) (s : buf) : buf :=
  if a =? 0 then s
  else mk_buf (unacked s ++ [mk_item d a]) (acked s) (acked_size s) (eof_flag s).

Definition eof (s : buf) : buf :=
  mk_buf (unacked s ++ [eof_marker]) (acked s) (acked_size s) true.

Inductive rerr :=
| EAssert       (* AssertionError (negative size / 'Received less data than expected' / length assert) *)
| EIndex        (* IndexError from self._acked[0] on an empty deque -- proved unreachable *)
| EStruct.      (* struct.error from unpack('>I', meta[1:]) -- proved unreachable *)

Inductive rd_out :=
| RBytes (b : bytes)
| RBlocked
| RErr (e : rerr).

(* the loop
       while self._acked_size < size:
           data, data_size, ack_size = await self._unacked.get()
           if not ack_size: break
           self._acked.append(AckedData(memoryview(data), data_size))
           self._acked_size += data_size
           self._ack_callback(ack_size)
   entered at `await self._unacked.get()` (the loop condition has just been found true).
   cr = the arguments of the _ack_callback calls made so far, in order. *)
Inductive fill_res :=
| FBlocked (ak : list bytes) (asz : Z) (cr : list Z)                    (* get() suspends: queue empty *)
| FDone (un : list item) (ak : list bytes) (asz : Z) (cr : list Z).     (* loop left *)

Fixpoint fill_get (n : Z) (un : list item) (ak : list bytes) (asz : Z) (cr : list Z) : fill_res :=
  match un with
  | [] => FBlocked ak asz cr
  | it :: un' =>
      if i_ack it =? 0 then FDone un' ak asz cr                          (* break *)
      else
        let ak' := ak ++ [i_data it] in
        let asz' := asz + zlen (i_data it) in
        let cr' := cr ++ [i_ack it] in
        if asz' <? n then fill_get n un' ak' asz' cr' else FDone un' ak' asz' cr'
  end.

(*     chunks = []; chunks_size = 0
       while chunks_size < size:
           next_chunk, next_chunk_size = self._acked[0]
           if chunks_size + next_chunk_size <= size:
               chunks.append(next_chunk); chunks_size += next_chunk_size; self._acked.popleft()
           else:
               offset = size - chunks_size
               chunks.append(next_chunk[:offset]); chunks_size += offset
               self._acked[0] = AckedData(next_chunk[offset:], next_chunk_size - offset)
   need = size - chunks_size.  Returns (b''.join(chunks), new deque); None = IndexError. *)
Fixpoint take_chunks (need : Z) (ak : list bytes) : option (bytes * list bytes) :=
  if 0 <? need then
    match ak with
    | [] => None
    | c :: ak' =>
        if zlen c <=? need then
          match take_chunks (need - zlen c) ak' with
          | Some (o, r) => Some (c ++ o, r)
          | None => None
          end
        else Some (firstn (Z.to_nat need) c, skipn (Z.to_nat need) c :: ak')
    end
  else Some ([], ak).

(* the part of read after the fill loop; e = self._eof as it is now *)
Definition finish (n : Z) (un : list item) (ak : list bytes) (asz : Z) (e : bool) (cr : list Z)
  : buf * rd_out * list Z :=
  if e && (asz =? 0) then (mk_buf un ak asz e, RBytes [], cr)
  else if asz <? n then (mk_buf un ak asz e, RErr EAssert, cr)
  else match take_chunks n ak with
       | Some (o, ak') => (mk_buf un ak' (asz - n) e, RBytes o, cr)
       | None => (mk_buf un ak asz e, RErr EIndex, cr)
       end.

Definition after_fill (n : Z) (e : bool) (r : fill_res) : buf * rd_out * list Z :=
  match r with
  | FBlocked ak asz cr => (mk_buf [] ak asz e, RBlocked, cr)
  | FDone un ak asz cr => finish n un ak asz e cr
  end.

Definition is_nil {A : Type} (l : list A) : bool := match l with [] => true | _ => false end.

(* Buffer.read(size) from its first line: returns (state, outcome, credits returned) *)
Definition read_start (n : Z) (s : buf) : buf * rd_out * list Z :=
  if n <? 0 then (s, RErr EAssert, [])                       (* assert size >= 0 *)
  else if n =? 0 then (s, RBytes [], [])
  else if negb (eof_flag s) || negb (is_nil (unacked s)) then  (* tested ONCE, on entry *)
    if acked_size s <? n
    then after_fill n (eof_flag s) (fill_get n (unacked s) (acked s) (acked_size s) [])
    else finish n (unacked s) (acked s) (acked_size s) (eof_flag s) []
  else finish n (unacked s) (acked s) (acked_size s) (eof_flag s) [].

(* a reader blocked in `await self._unacked.get()` is scheduled again *)
Definition read_resume (n : Z) (s : buf) : buf * rd_out * list Z :=
  after_fill n (eof_flag s) (fill_get n (unacked s) (acked s) (acked_size s) []).

(* ---- grpclib.stream.recv_message ------------------------------------------------------------- *)

Inductive result :=
| RMsg (m : bytes)       (* a message (before codec.decode; the codec is outside the model) *)
| REos                   (* None: end of stream *)
| RFail (e : rerr)       (* exception out of recv_message *)
| RNotImpl.              (* NotImplementedError('Compression not implemented') *)

Inductive phase :=
| PIdle                  (* no recv_message in progress *)
| PMeta                  (* suspended inside  meta = await stream.recv_data(5) *)
| PBody (len : Z).       (* suspended inside  message_bin = await stream.recv_data(message_len) *)

(* assert len(message_bin) == message_len *)
Definition body_done (len : Z) (b : bytes) : result :=
  if zlen b =? len then RMsg b else RFail EAssert.

Definition recv_body (len : Z) (cr0 : list Z) (r : buf * rd_out * list Z)
  : buf * phase * option result * list Z :=
  let '(s, o, cr) := r in
  match o with
  | RBlocked => (s, PBody len, None, cr0 ++ cr)
  | RErr e => (s, PIdle, Some (RFail e), cr0 ++ cr)
  | RBytes b => (s, PIdle, Some (body_done len b), cr0 ++ cr)
  end.

Definition recv_meta (r : buf * rd_out * list Z) : buf * phase * option result * list Z :=
  let '(s, o, cr) := r in
  match o with
  | RBlocked => (s, PMeta, None, cr)
  | RErr e => (s, PIdle, Some (RFail e), cr)
  | RBytes [] => (s, PIdle, Some REos, cr)                               (* if not meta: return None *)
  | RBytes (flag :: lenb) =>
      if negb (flag =? 0) then (s, PIdle, Some RNotImpl, cr)             (* unpack('?', meta[:1]) *)
      else match be32_decode lenb with
           | None => (s, PIdle, Some (RFail EStruct), cr)
           | Some len => recv_body len cr (read_start len s)
           end
  end.

(* one scheduling of the task that runs recv_message: start a call, or continue the suspended one *)
Definition recv_step (ph : phase) (s : buf) : buf * phase * option result * list Z :=
  match ph with
  | PIdle => recv_meta (read_start 5 s)
  | PMeta => recv_meta (read_resume 5 s)
  | PBody len => recv_body len [] (read_resume len s)
  end.

(* ---- histories -------------------------------------------------------------------------------- *)

Inductive op :=
| OAdd (d : bytes) (a : Z)     (* DataReceived(data=d, flow_controlled_length=a) -> Buffer.add *)
| OEof                         (* StreamEnded -> Buffer.eof *)
| ORecv.                       (* the receiving task is scheduled (calls recv_message if idle) *)

Record rstate := mk_rstate { r_buf : buf; r_phase : phase; r_done : bool }.
Definition rstate_init : rstate := mk_rstate buf_init PIdle false.

(* raw: every ORecv in idle phase starts another recv_message, whatever the previous one returned *)
Definition step_raw (o : op) (st : rstate) : rstate * list result :=
  match o with
  | OAdd d a => (mk_rstate (add d a (r_buf st)) (r_phase st) (r_done st), [])
  | OEof => (mk_rstate (eof (r_buf st)) (r_phase st) (r_done st), [])
  | ORecv =>
      let '(s, ph, res, _) := recv_step (r_phase st) (r_buf st) in
      match res with
      | None => (mk_rstate s ph (r_done st), [])
      | Some (RMsg m) => (mk_rstate s ph (r_done st), [RMsg m])
      | Some r => (mk_rstate s ph true, [r])
      end
  end.

(* the consumer of the property (`async for` / a loop until None): it stops calling recv_message
   after end-of-stream or an exception *)
Definition step (o : op) (st : rstate) : rstate * list result :=
  match o with
  | ORecv => if r_done st then (st, []) else step_raw ORecv st
  | _ => step_raw o st
  end.

Fixpoint run_with (f : op -> rstate -> rstate * list result) (ops : list op) (st : rstate)
  : rstate * list result :=
  match ops with
  | [] => (st, [])
  | o :: r => let '(st1, r1) := f o st in
              let '(st2, r2) := run_with f r st1 in (st2, r1 ++ r2)
  end.

Definition run := run_with step.
Definition run_raw := run_with step_raw.

Fixpoint payloads (ops : list op) : list bytes :=
  match ops with
  | [] => []
  | OAdd d _ :: r => d :: payloads r
  | _ :: r => payloads r
  end.

Fixpoint ended (ops : list op) : bool :=
  match ops with
  | [] => false
  | OEof :: _ => true
  | _ :: r => ended r
  end.

(* legal histories: flow_controlled_length = payload + padding overhead >= len(data); no DATA and no
   second END_STREAM after END_STREAM (h2 rejects both before grpclib sees them) *)
Fixpoint wf_ops (closed : bool) (ops : list op) : Prop :=
  match ops with
  | [] => True
  | OAdd d a :: r => closed = false /\ zlen d <= a /\ wf_ops false r
  | OEof :: r => closed = false /\ wf_ops true r
  | ORecv :: r => wf_ops closed r
  end.

(* ---- the abstract byte queue (specification of Buffer) ---------------------------------------- *)

(* unread bytes of a buffer *)
Definition abs_q (s : buf) : bytes := concat (acked s) ++ concat (map i_data (unacked s)).

(* read n on a byte queue q that is / is not closed *)
Definition aread (n : Z) (q : bytes) (closed : bool) : bytes * rd_out :=
  if n <? 0 then (q, RErr EAssert)
  else if n =? 0 then (q, RBytes [])
  else if n <=? zlen q then (skipn (Z.to_nat n) q, RBytes (firstn (Z.to_nat n) q))
  else if closed then (if zlen q =? 0 then (q, RBytes []) else (q, RErr EAssert))
  else (q, RBlocked).

Definition arecv_body (len : Z) (r : bytes * rd_out) : bytes * phase * option result :=
  let '(q, o) := r in
  match o with
  | RBlocked => (q, PBody len, None)
  | RErr e => (q, PIdle, Some (RFail e))
  | RBytes b => (q, PIdle, Some (body_done len b))
  end.

Definition arecv_meta (closed : bool) (r : bytes * rd_out) : bytes * phase * option result :=
  let '(q, o) := r in
  match o with
  | RBlocked => (q, PMeta, None)
  | RErr e => (q, PIdle, Some (RFail e))
  | RBytes [] => (q, PIdle, Some REos)
  | RBytes (flag :: lenb) =>
      if negb (flag =? 0) then (q, PIdle, Some RNotImpl)
      else match be32_decode lenb with
           | None => (q, PIdle, Some (RFail EStruct))
           | Some len => arecv_body len (aread len q closed)
           end
  end.

Definition arecv (ph : phase) (q : bytes) (closed : bool) : bytes * phase * option result :=
  match ph with
  | PIdle | PMeta => arecv_meta closed (aread 5 q closed)
  | PBody len => arecv_body len (aread len q closed)
  end.

Record astate := mk_astate { a_q : bytes; a_closed : bool; a_phase : phase; a_done : bool }.

Definition astep (o : op) (a : astate) : astate * list result :=
  match o with
  | OAdd d _ => (mk_astate (a_q a ++ d) (a_closed a) (a_phase a) (a_done a), [])
  | OEof => (mk_astate (a_q a) true (a_phase a) (a_done a), [])
  | ORecv =>
      if a_done a then (a, [])
      else
        let '(q, ph, res) := arecv (a_phase a) (a_q a) (a_closed a) in
        match res with
        | None => (mk_astate q (a_closed a) ph false, [])
        | Some (RMsg m) => (mk_astate q (a_closed a) ph false, [RMsg m])
        | Some r => (mk_astate q (a_closed a) ph true, [r])
        end
  end.

Fixpoint arun (ops : list op) (a : astate) : astate * list result :=
  match ops with
  | [] => (a, [])
  | o :: r => let '(a1, r1) := astep o a in
              let '(a2, r2) := arun r a1 in (a2, r1 ++ r2)
  end.

Definition absr (st : rstate) : astate :=
  mk_astate (abs_q (r_buf st)) (eof_flag (r_buf st)) (r_phase st) (r_done st).
