(* Model of CPython 3.12.1 urllib.parse.quote / unquote (Lib/urllib/parse.py) as used by
     grpclib.metadata.encode_grpc_message(m) = quote(m, safe=_UNQUOTED, encoding='utf-8')
     grpclib.metadata.decode_grpc_message(v) = unquote(v, encoding='utf-8', errors='replace')
   _UNQUOTED is Gen.Facts.unquoted (regenerated from the source on every run).
   Strings are lists of code points, bytes lists of 0..255.  Executable; no proofs here. *)
From Coq Require Import ZArith List Bool.
From GV Require Import Lib.Str Gen.Facts Model.Utf8.
Import ListNotations.
Open Scope Z_scope.

Definition PCT : Z := 37.   (* '%' *)

Definition mem_z (c : Z) (l : list Z) : bool := existsb (Z.eqb c) l.

(* ---- quote ------------------------------------------------------------------------------- *)

(* _ALWAYS_SAFE = A-Z a-z 0-9 and "_.-~" *)
Definition always_safe (b : Z) : bool :=
  in_range 65 90 b || in_range 97 122 b || in_range 48 57 b
  || (b =? 95) || (b =? 46) || (b =? 45) || (b =? 126).

(* quote_from_bytes: safe = safe.encode('ascii', 'ignore') -- non-ASCII characters are dropped *)
Definition safe_norm (safe : list Z) : list Z := filter (in_range 0 127) safe.

Definition hex_upper (v : Z) : Z := if v <? 10 then 48 + v else 55 + v.     (* '{:X}' of one digit *)

(* _Quoter.__missing__: chr(b) if b in safe else '%{:02X}'.format(b) *)
Definition quote_byte (safe : list Z) (b : Z) : list Z :=
  if always_safe b || mem_z b safe then [b]
  else [PCT; hex_upper (b / 16); hex_upper (b mod 16)].

(* quote_from_bytes(bs, safe): ''.join(map(quoter, bs)); the two shortcuts of the real code
   (empty input, nothing to quote) return the same string *)
Definition quote_from_bytes (safe bs : list Z) : list Z :=
  flat_map (quote_byte (safe_norm safe)) bs.

(* quote(string, safe, encoding='utf-8') with errors=None -> 'strict'.  None = UnicodeEncodeError *)
Definition quote (safe s : list Z) : option (list Z) :=
  match utf8_encode s with
  | Some bs => Some (quote_from_bytes safe bs)
  | None => None
  end.

Definition encode_grpc_message (m : list Z) : option (list Z) := quote unquoted m.

(* ---- unquote ----------------------------------------------------------------------------- *)

Definition hexval (c : Z) : option Z :=            (* _hexdig = '0123456789ABCDEFabcdef' *)
  if in_range 48 57 c then Some (c - 48)
  else if in_range 65 70 c then Some (c - 55)
  else if in_range 97 102 c then Some (c - 87)
  else None.

(* bytes.split(b'%'): the first piece and the list of the remaining pieces *)
Fixpoint split_pct (l : list Z) : list Z * list (list Z) :=
  match l with
  | [] => ([], [])
  | c :: r =>
      let (h, t) := split_pct r in
      if c =? PCT then ([], h :: t) else (c :: h, t)
  end.

(* one iteration of the loop of _unquote_impl:
     try: append(_hextobyte[item[:2]]); append(item[2:])
     except KeyError: append(b'%'); append(item) *)
Definition unquote_item (item : list Z) : list Z :=
  match item with
  | h1 :: h2 :: rest =>
      match hexval h1, hexval h2 with
      | Some a, Some b => (a * 16 + b) :: rest
      | _, _ => PCT :: item
      end
  | _ => PCT :: item
  end.

(* _unquote_impl on the bytes of an ASCII str *)
Definition unquote_impl (bs : list Z) : list Z :=
  let (h, t) := split_pct bs in h ++ flat_map unquote_item t.

Definition is_ascii (c : Z) : bool := in_range 0 127 c.

(* one maximal ASCII run (collected in reverse): _unquote_impl(run).decode('utf-8', 'replace') *)
Definition flush_run (run : list Z) : list Z :=
  utf8_decode_replace (unquote_impl (rev_append run [])).     (* rev_append: linear-time reversal *)

(* _generate_unquoted_parts: maximal runs of [\x00-\x7f]+ are unquoted and decoded, the
   non-ASCII characters between them are kept as they are *)
Fixpoint unquote_parts (l run : list Z) : list Z :=
  match l with
  | [] => flush_run run
  | c :: r =>
      if is_ascii c then unquote_parts r (c :: run)
      else flush_run run ++ c :: unquote_parts r []
  end.

(* unquote(string, encoding='utf-8', errors='replace') for a str argument *)
Definition unquote (s : list Z) : list Z :=
  if mem_z PCT s then unquote_parts s [] else s.

Definition decode_grpc_message (v : list Z) : list Z := unquote v.

(* ---- the specification side: what the property demands of the wire form ------------------- *)

Definition printable (c : Z) : bool := in_range 32 126 c.
Definition upper_hex (c : Z) : bool := in_range 48 57 c || in_range 65 70 c.

(* printable ASCII only, and '%' only as the introducer of an escape %XX with two upper-case
   hexadecimal digits *)
Fixpoint well_escaped (l : list Z) : bool :=
  match l with
  | [] => true
  | c :: r =>
      if c =? PCT then
        match r with
        | h1 :: h2 :: r2 => upper_hex h1 && upper_hex h2 && well_escaped r2
        | _ => false
        end
      else printable c && well_escaped r
  end.
