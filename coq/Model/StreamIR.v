(* The tiny IR into which tools/skeleton_ir.py slices the public coroutines of client.Stream and
   server.Stream (target of the translator; Gen/StreamOps.v is regenerated from /repo on every run).
   Only syntax here; Model/StreamSem.v interprets it. *)
From Coq Require Import List Bool ZArith.
Import ListNotations.

Inductive flag :=
| F_send_request_done | F_send_message_done | F_end_done | F_recv_initial_metadata_done
| F_recv_trailing_metadata_done | F_cancel_done | F_trailers_only
| F_send_initial_metadata_done | F_send_trailing_metadata_done.

Inductive param := P_end.                        (* the `end` keyword argument *)
Inductive local := L_end_stream.                 (* the tracked local of client send_message *)

(* abstract predicates answered by the environment (the peer / the codec / untracked data) *)
Inductive envpred :=
| E_has_grpc_status       (* 'grpc-status' in headers_map: trailers-only response *)
| E_got_message           (* recv_message returned a message rather than None *)
| E_closable              (* self._stream.closable *)
| E_untracked (k : nat).  (* a condition over untracked data (k = source line) *)

Inductive cond :=
| CTrue | CFalse
| CFlag (f : flag) | CParam (p : param) | CLocal (x : local)
| CClientStreaming | CServerStreaming
| CStatusOK                                        (* `status is Status.OK` *)
| CEnv (q : envpred)
| CNot (c : cond) | CAnd (a b : cond) | COr (a b : cond).

Inductive exn :=
| XProtocolError                                   (* grpclib.exceptions.ProtocolError: a refusal *)
| XOther (k : nat).                                (* any other exception class raised by the code *)

Inductive opname :=
| OpSendRequest | OpSendMessage | OpEnd | OpRecvInitialMetadata | OpRecvMessage
| OpRecvTrailingMetadata | OpCancel
| OpSendInitialMetadata | OpSendTrailingMetadata.

Inductive hook :=
| H_send_request | H_send_message | H_recv_message | H_recv_initial_metadata
| H_recv_trailing_metadata | H_send_initial_metadata | H_send_trailing_metadata | H_recv_request.

Inductive helper :=
| Hp_raise_for_status | Hp_raise_for_content_type | Hp_process_grpc_status | Hp_raise_for_grpc_status.

(* header names that the code itself puts into the `headers` list it is about to send *)
Inductive hname :=
| HN_method | HN_scheme | HN_path | HN_authority | HN_grpc_timeout | HN_te | HN_content_type
| HN_user_agent | HN_status | HN_grpc_status | HN_grpc_message | HN_status_details.

Inductive prim :=
| PConnect                                         (* await self._channel.__connect__() *)
| PSendRequest (end_stream : cond)                 (* protocol.Stream.send_request(headers, end_stream=..) *)
| PSendHeaders (end_stream : bool)                 (* protocol.Stream.send_headers(headers[, end_stream=True]) *)
| PSendData (end_stream : cond)                    (* stream.send_message(.., end=..) -> send_data *)
| PEnd                                             (* protocol.Stream.end() *)
| PReset                                           (* protocol.Stream.reset() *)
| PRecvHeaders | PRecvMessage | PRecvTrailers.

Inductive stmt :=
| SRaise (e : exn)
| SSetFlag (f : flag) (b : bool)
| SSetLocal (x : local) (c : cond)
| SHeadersNew (hs : list hname)                    (* headers = [(name, ..), ...] *)
| SHeadersAdd (hs : list hname)                    (* headers.append / headers.extend of protocol headers *)
| SGuarded (body : list stmt)                      (* with self._wrapper: *)
| SAwaitPrim (p : prim)
| SAwaitSelf (o : opname)                          (* await self.<op>() with default arguments *)
| SAwaitHook (h : hook)                            (* listeners: user code, may raise *)
| SEncodeMetadata                                  (* headers.extend(encode_metadata(..)): may raise *)
| SHelper (h : helper)
| SResetNowait                                     (* self._stream.reset_nowait() *)
| SIf (c : cond) (t e : list stmt)
| SReturn
| SOpaque.                                         (* statements that touch no tracked state *)

Definition program := list stmt.
Definition optable := list (opname * program).
