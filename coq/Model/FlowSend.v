(* Model for C07: N tasks running grpclib.protocol.Stream.send_data concurrently on one connection.

   What is modelled line by line (grpclib/protocol.py):
     Stream.send_data                      -- do_run (one loop iteration per `Run i`)
     EventsProcessor.process_window_updated, process_remote_settings_changed
                                           -- do_win_stream / do_win_conn / do_init_win
     Connection.pause_writing / resume_writing (H2Protocol.pause_writing / resume_writing)
                                           -- do_pause / do_resume
   What is modelled but NOT verified (hyper-h2 4.3.0 as grpclib uses it): the outbound accounting
   of H2Connection -- per-stream and connection `outbound_flow_control_window` in Z (they become
   negative when SETTINGS lowers INITIAL_WINDOW_SIZE), `local_flow_control_window = min(conn,
   stream)`, decrement of both by send_data, the checks of send_data (FlowControlError /
   FrameTooLargeError), WINDOW_UPDATE, the INITIAL_WINDOW_SIZE delta applied to every stream,
   `max_outbound_frame_size`; and asyncio.Event: `set` (no-op when the flag is already set, else
   flag := true and every current waiter is woken: it is Ready and WILL run even if the flag is
   cleared again before it is scheduled), `clear` (resets the flag only), `wait` (returns at once
   when the flag is set).

   Coroutines are state machines between suspension points.  A woken waiter is represented by its
   continuation: woken from `write_ready.wait()` = pc CheckWindow (it does NOT look at the flag
   again), woken from `window_updated.wait()` = pc Top (`continue`).  Ready = pc in {Top,
   CheckWindow}; Blocked = pc in {WaitWrite, WaitWindow}.

   Granularity: `Run i` executes ONE iteration of the `while True` loop (up to the next await or to
   the end of the iteration).  When write_ready is set, `await write_ready.wait()` does not suspend,
   so on the real loop a sender executes several iterations in one atomic segment; the segment is
   the op list [Run i; Run i; ...].  The finer grain is needed for faithfulness, not convenience:
   a real transport calls `protocol.pause_writing()` synchronously from inside `transport.write()`,
   i.e. BETWEEN two iterations of one segment.  Theorems quantify over all op lists, a superset of
   what an event loop can produce.

   All N senders are registered in `EventsProcessor.streams` (index order = registration order);
   a released / unregistered stream is outside this model.  *)
From Coq Require Import ZArith List Bool.
Import ListNotations.
Open Scope Z_scope.

Inductive pc :=
| Top            (* about to execute `await self.connection.write_ready.wait()` *)
| CheckWindow    (* about to execute `window = local_flow_control_window(id)` *)
| WaitWrite      (* suspended in write_ready.wait() *)
| WaitWindow     (* suspended in window_updated.wait(), after window_updated.clear() *)
| Done           (* send_data returned *)
| Failed.        (* h2.send_data raised FlowControlError / FrameTooLargeError out of send_data *)

Record sender := mkSender {
  s_pc : pc;
  s_pos : Z;        (* f_pos *)
  s_len : Z;        (* f_last = len(data) *)
  s_win : Z;        (* h2: stream.outbound_flow_control_window *)
  s_wu : bool       (* Stream.window_updated flag *)
}.

Record state := mkState {
  senders : list sender;   (* the registry `streams`, in registration order *)
  cwin : Z;                (* h2: connection.outbound_flow_control_window *)
  iws : Z;                 (* h2: remote_settings.initial_window_size *)
  mfs : Z;                 (* h2: max_outbound_frame_size *)
  wready : bool;           (* Connection.write_ready flag *)
  wwait : list nat;        (* waiters of write_ready, FIFO *)
  rq : list nat;           (* asyncio's ready queue (woken tasks, in wake-up order) *)
  broken : bool            (* the peer broke HTTP/2: h2 raised, grpclib closed the connection *)
}.

Record chunk := mkChunk { c_sid : nat; c_off : Z; c_len : Z }.   (* one DATA frame *)

Inductive op :=
| WinStream (i : nat) (k : Z)     (* WINDOW_UPDATE on the stream of sender i *)
| WinConn (k : Z)                 (* WINDOW_UPDATE on stream 0 *)
| SetInitWin (v : Z)              (* SETTINGS INITIAL_WINDOW_SIZE = v *)
| SetMaxFrame (m : Z)             (* SETTINGS MAX_FRAME_SIZE = m *)
| Pause                           (* transport calls pause_writing() *)
| Resume                          (* transport calls resume_writing() *)
| Run (i : nat).                  (* the event loop runs sender i for one loop iteration *)

Definition max_window : Z := 2147483647.        (* h2 LARGEST_FLOW_CONTROL_WINDOW *)
Definition min_frame : Z := 16384.
Definition max_frame : Z := 16777215.

(* ---- small list helpers ---- *)
Fixpoint upd {A} (l : list A) (i : nat) (y : A) : list A :=
  match l, i with
  | [], _ => []
  | _ :: r, O => y :: r
  | x :: r, S j => x :: upd r j y
  end.

Definition remove_nat (i : nat) (l : list nat) : list nat :=
  filter (fun j => negb (Nat.eqb j i)) l.

Definition ready_pc (p : pc) : bool :=
  match p with Top | CheckWindow => true | _ => false end.
Definition finished_pc (p : pc) : bool :=
  match p with Done | Failed => true | _ => false end.

Definition with_pc (x : sender) (p : pc) : sender :=
  mkSender p (s_pos x) (s_len x) (s_win x) (s_wu x).

(* indices (from k) of the senders suspended in window_updated.wait(), in registry order *)
Fixpoint ww_idx (l : list sender) (k : nat) : list nat :=
  match l with
  | [] => []
  | x :: r => (match s_pc x with WaitWindow => [k] | _ => [] end) ++ ww_idx r (S k)
  end.

(* asyncio.Event.set() on window_updated of one stream *)
Definition wu_set (x : sender) : sender :=
  if s_wu x then x
  else mkSender (match s_pc x with WaitWindow => Top | p => p end)
                (s_pos x) (s_len x) (s_win x) true.
(* ... the indices it wakes *)
Definition wu_woken (x : sender) (i : nat) : list nat :=
  if s_wu x then [] else match s_pc x with WaitWindow => [i] | _ => [] end.
Fixpoint wu_woken_all (l : list sender) (k : nat) : list nat :=
  match l with [] => [] | x :: r => wu_woken x k ++ wu_woken_all r (S k) end.

Definition add_win (d : Z) (x : sender) : sender :=
  mkSender (s_pc x) (s_pos x) (s_len x) (s_win x + d) (s_wu x).

Definition break (s : state) : state :=
  mkState (senders s) (cwin s) (iws s) (mfs s) (wready s) (wwait s) (rq s) true.

(* ---- peer actions, as h2 + EventsProcessor handle them ---- *)

(* WINDOW_UPDATE(stream i, k).  h2: increment 0 or > 2^31-1 is a connection error; overflow of the
   stream window is a stream error (h2 resets the stream) -- both leave the scope of C07.
   process_window_updated: `stream = self.streams.get(id); if stream: stream.window_updated.set()` *)
Definition do_win_stream (s : state) (i : nat) (k : Z) : state :=
  match nth_error (senders s) i with
  | None => s                     (* a stream of the connection that is not one of the senders *)
  | Some x =>
    if (k <? 1) || (max_window <? k) || (max_window <? s_win x + k) then break s
    else mkState (upd (senders s) i (wu_set (add_win k x))) (cwin s) (iws s) (mfs s) (wready s)
                 (wwait s) (rq s ++ wu_woken x i) false
  end.

(* WINDOW_UPDATE(0, k): `for value in self.streams.values(): value.window_updated.set()` *)
Definition do_win_conn (s : state) (k : Z) : state :=
  if (k <? 1) || (max_window <? k) || (max_window <? cwin s + k) then break s
  else mkState (map wu_set (senders s)) (cwin s + k) (iws s) (mfs s) (wready s)
               (wwait s) (rq s ++ wu_woken_all (senders s) 0) false.

(* SETTINGS INITIAL_WINDOW_SIZE = v: h2 adds (v - old) to every stream window (guarded against
   overflow: connection error); process_remote_settings_changed sets every registered event *)
Definition do_init_win (s : state) (v : Z) : state :=
  let d := v - iws s in
  if (v <? 0) || (max_window <? v) ||
     existsb (fun x => max_window <? s_win x + d) (senders s) then break s
  else mkState (map (fun x => wu_set (add_win d x)) (senders s)) (cwin s) v (mfs s) (wready s)
               (wwait s) (rq s ++ wu_woken_all (senders s) 0) false.

(* SETTINGS MAX_FRAME_SIZE = m: h2 validates the range; grpclib wakes nobody *)
Definition do_max_frame (s : state) (m : Z) : state :=
  if (m <? min_frame) || (max_frame <? m) then break s
  else mkState (senders s) (cwin s) (iws s) m (wready s) (wwait s) (rq s) false.

(* Connection.pause_writing: self.write_ready.clear() *)
Definition do_pause (s : state) : state :=
  mkState (senders s) (cwin s) (iws s) (mfs s) false (wwait s) (rq s) false.

(* Connection.resume_writing: self.write_ready.set(); if not self.is_closing(): self.flush()
   The flush writes what h2 has queued.  ASSUMPTION of this model (tied to the source by
   C07_source_send_data_facts (b) and checked by the correspondence, which reports any DATA frame
   the peer receives outside a sender's run): no DATA frame of a sender is queued in h2 at that
   moment, because every iteration of send_data hands its frame to the transport (data_to_send +
   write) before its next suspension point.  What may be queued are frames of other code paths
   (the RST_STREAM of reset_nowait issued while paused, ...): they are not flow-controlled, change
   no outbound window and wake nobody, so the flush emits no chunk and leaves this state unchanged.
   If the transport re-pauses from inside that write, that is the op list [Resume; Pause].
   The connection is not closing here (a closing connection is outside C07). *)
Definition do_resume (s : state) : state :=
  if wready s then s
  else mkState (map (fun x => match s_pc x with WaitWrite => with_pc x CheckWindow | _ => x end)
                    (senders s))
               (cwin s) (iws s) (mfs s) true [] (rq s ++ wwait s) false.

(* ---- one iteration of the send_data loop ---- *)

(* len(BytesIO.read(n)) with `rem` bytes left: a negative n reads everything *)
Definition bio_read (n rem : Z) : Z := if n <? 0 then rem else Z.min n rem.

Definition set_sender (s : state) (i : nat) (x : sender) (q : list nat) : state :=
  mkState (upd (senders s) i x) (cwin s) (iws s) (mfs s) (wready s) (wwait s) q false.
(* the task was in the ready queue but has nothing to run: it only leaves the queue *)
Definition drop_rq (s : state) (i : nat) : state :=
  mkState (senders s) (cwin s) (iws s) (mfs s) (wready s) (wwait s) (remove_nat i (rq s)) false.

Definition do_run (s : state) (i : nat) : state * list chunk :=
  match nth_error (senders s) i with
  | None => (drop_rq s i, [])
  | Some x =>
    match s_pc x with
    | Top =>
        (* await self.connection.write_ready.wait() *)
        if wready s then (set_sender s i (with_pc x CheckWindow) (rq s), [])
        else (mkState (upd (senders s) i (with_pc x WaitWrite)) (cwin s) (iws s) (mfs s)
                      (wready s) (wwait s ++ [i]) (remove_nat i (rq s)) false, [])
    | CheckWindow =>
        (* window = self._h2_connection.local_flow_control_window(self.id) *)
        let window := Z.min (cwin s) (s_win x) in
        if window <=? 0 then
          (* self.window_updated.clear(); await self.window_updated.wait() *)
          (set_sender s i (mkSender WaitWindow (s_pos x) (s_len x) (s_win x) false)
                      (remove_nat i (rq s)), [])
        else
          let rem := s_len x - s_pos x in
          (* f_chunk = f.read(min(window, max_frame_size, f_last - f_pos)) *)
          let c := bio_read (Z.min (Z.min window (mfs s)) rem) rem in
          (* h2.send_data: FlowControlError / FrameTooLargeError *)
          if (window <? c) || (mfs s <? c) then
            (set_sender s i (with_pc x Failed) (remove_nat i (rq s)), [])
          else
            let pos' := s_pos x + c in
            let fin := pos' =? s_len x in        (* if f_pos == f_last: ... break *)
            (mkState (upd (senders s) i
                          (mkSender (if fin then Done else Top) pos' (s_len x) (s_win x - c) (s_wu x)))
                     (cwin s - c) (iws s) (mfs s) (wready s) (wwait s)
                     (if fin then remove_nat i (rq s) else rq s) false,
             [mkChunk i (s_pos x) c])
    | _ => (drop_rq s i, [])        (* not ready: nothing runs *)
    end
  end.

Definition step (s : state) (o : op) : state * list chunk :=
  if broken s then (s, [])    (* connection closed by grpclib after the peer's protocol violation *)
  else match o with
  | WinStream i k => (do_win_stream s i k, [])
  | WinConn k => (do_win_conn s k, [])
  | SetInitWin v => (do_init_win s v, [])
  | SetMaxFrame m => (do_max_frame s m, [])
  | Pause => (do_pause s, [])
  | Resume => (do_resume s, [])
  | Run i => do_run s i
  end.

Fixpoint run (s : state) (ops : list op) : state * list chunk :=
  match ops with
  | [] => (s, [])
  | o :: r => let (s1, c1) := step s o in
              let (s2, c2) := run s1 r in (s2, c1 ++ c2)
  end.

(* N tasks just created (all at Top, scheduled in creation order) on streams with the given
   (message length, stream window), connection window cw, write_ready set *)
Definition init (cfg : list (Z * Z)) (cw iw mf : Z) : state :=
  mkState (map (fun lw => mkSender Top 0 (fst lw) (snd lw) false) cfg) cw iw mf true []
          (seq 0 (length cfg)) false.

(* ---- observations ---- *)
Definition local_window (s : state) (x : sender) : Z := Z.min (cwin s) (s_win x).
Definition quiescent (s : state) : bool :=
  forallb (fun x => negb (ready_pc (s_pc x))) (senders s).

(* ---- bounded iteration with early exit (structural on the binary fuel) ---- *)
Section IterUntil.
  Context {A : Type} (fin : A -> bool) (f : A -> A).
  Fixpoint iter_until (p : positive) (x : A) : A :=
    if fin x then x else
    match p with
    | xH => f x
    | xO q => iter_until q (iter_until q x)
    | xI q => iter_until q (iter_until q (f x))
    end.
End IterUntil.

(* ---- the deterministic FIFO run to quiescence of the asyncio loop, used by the correspondence.
   `budget = Some k`: the transport calls pause_writing() from inside its (k+1)-th write() from
   now on (what a real transport does when its buffer passes the high-water mark). ---- *)
Record fifo := mkFifo {
  f_state : state;
  f_budget : option nat;
  f_out : list chunk;          (* reversed *)
  f_sched : list op            (* reversed: the ops executed so far *)
}.

Definition fifo_fin (x : fifo) : bool :=
  match rq (f_state x) with [] => true | _ => false end.

Definition fifo_step (x : fifo) : fifo :=
  match rq (f_state x) with
  | [] => x
  | i :: _ =>
    let (s1, out) := step (f_state x) (Run i) in
    match out, f_budget x with
    | _ :: _, Some O =>
        mkFifo (fst (step s1 Pause)) None (rev out ++ f_out x) (Pause :: Run i :: f_sched x)
    | _ :: _, Some (S k) => mkFifo s1 (Some k) (rev out ++ f_out x) (Run i :: f_sched x)
    | _, b => mkFifo s1 b (rev out ++ f_out x) (Run i :: f_sched x)
    end
  end.

Definition sender_fuel (x : sender) : Z :=
  match s_pc x with
  | Top => 2 * Z.max 0 (s_len x - s_pos x) + 3
  | CheckWindow => 2 * Z.max 0 (s_len x - s_pos x) + 2
  | _ => 0
  end.
Definition fifo_fuel (s : state) : Z :=
  fold_right (fun x a => sender_fuel x + a) 0 (senders s) + Z.of_nat (length (rq s)) + 1.

Definition fifo_quiesce (budget : option nat) (s : state) : fifo :=
  iter_until fifo_fin fifo_step (Z.to_pos (fifo_fuel s)) (mkFifo s budget [] []).

Definition fifo_result (budget : option nat) (s : state) : state * list chunk :=
  let r := fifo_quiesce budget s in (f_state r, rev (f_out r)).

(* ------------------------------------------------------------------------------------------------
   The connection around the senders: the transport's own paused state and the frames h2 holds
   queued.  (Added when Connection.resume_writing began to flush.)

   `tpaused`  what the transport itself believes (it called pause_writing() last).  The transport
              calls resume_writing() / pause_writing() only on a change of this state.
   `hq`       h2 holds outbound frames that were not handed to the transport: the RST_STREAM of a
              `Stream.reset_nowait()` issued while write_ready was clear (reset_nowait writes only
              `if self.connection.write_ready.is_set()`).  Such frames are not flow-controlled,
              change no outbound window and wake nobody.  They leave h2 with the next
              `data_to_send()`: the flush of resume_writing, the two flushes of data_received
              (every peer frame), or the write of a sender's next DATA frame.
   cop        the ops of `step`, plus
     ResetAux   reset_nowait() on a stream of the connection that is NOT one of the senders (another
                call being cancelled; resetting a sender's own stream ends that sender and is outside
                C07)
     ResumeP    the transport resumes and, from inside the write() of the flush in resume_writing,
                pauses again (its buffer is still above the high-water mark).  Only possible when
                there is something to write (hq); in Connection.resume_writing the order is
                write_ready.set(); flush() -> write -> pause_writing() -> write_ready.clear(), i.e.
                exactly [Resume; Pause]: the senders woken by set() are Ready, the flag ends clear. *)
Record conn := mkConn { core : state; tpaused : bool; hq : bool }.

Inductive cop :=
| Op (o : op)
| ResetAux
| ResumeP
| PeerOther.     (* a peer frame that means nothing to the senders (SETTINGS carrying only
                    MAX_CONCURRENT_STREAMS / unknown ids, PING, ...): data_received still flushes *)

Definition is_frame_op (o : op) : bool :=
  match o with WinStream _ _ | WinConn _ | SetInitWin _ | SetMaxFrame _ => true | _ => false end.

Definition cstep (c : conn) (o : cop) : conn * list chunk :=
  if broken (core c) then (c, []) else
  match o with
  | Op Pause =>
      (* MemTransport / asyncio: pause_writing() is called only when the transport was not paused *)
      if tpaused c then (c, []) else (mkConn (fst (step (core c) Pause)) true (hq c), [])
  | Op Resume =>
      if tpaused c then (mkConn (fst (step (core c) Resume)) false false, []) else (c, [])
  | Op (Run i) =>
      let (s1, out) := step (core c) (Run i) in
      (mkConn s1 (tpaused c) (match out with [] => hq c | _ => false end), out)
  | Op o =>                       (* a frame from the peer: data_received flushes *)
      (mkConn (fst (step (core c) o)) (tpaused c) false, [])
  | ResetAux =>
      (* h2.reset_stream(); if write_ready.is_set(): transport.write(h2.data_to_send()) *)
      (mkConn (core c) (tpaused c) (negb (wready (core c))), [])
  | ResumeP =>
      if tpaused c then
        if hq c then (mkConn (fst (step (fst (step (core c) Resume)) Pause)) true false, [])
        else (mkConn (fst (step (core c) Resume)) false false, [])
      else (c, [])
  | PeerOther => (mkConn (core c) (tpaused c) false, [])
  end.

Fixpoint crun (c : conn) (ops : list cop) : conn * list chunk :=
  match ops with
  | [] => (c, [])
  | o :: r => let (c1, x1) := cstep c o in
              let (c2, x2) := crun c1 r in (c2, x1 ++ x2)
  end.

Definition cinit (cfg : list (Z * Z)) (cw iw mf : Z) : conn := mkConn (init cfg cw iw mf) false false.

(* FIFO run to quiescence on the connection; the only way write_ready changes inside it is the
   transport pausing from inside a write() *)
Definition cfifo (budget : option nat) (c : conn) : conn * list chunk :=
  let (s1, out) := fifo_result budget (core c) in
  (mkConn s1 (tpaused c || (wready (core c) && negb (wready s1)))
          (match out with [] => hq c | _ => false end), out).
