(* Model of grpclib.metadata.encode_bin_value / decode_bin_value, i.e. of
     b64encode(v).rstrip(b'=')     and     b64decode(v + b'=' * (len(v) % 4))
   with CPython 3.12's binascii.b2a_base64 / non-strict a2b_base64 (Modules/binascii.c) as the
   meaning of b64encode / b64decode.  Bytes are Z values 0..255.  Executable; no proofs here. *)
From Coq Require Import ZArith List Bool.
From GV Require Import Lib.Str.
Import ListNotations.
Open Scope Z_scope.

Definition PAD : Z := 61.  (* '=' *)

Definition b64_char (v : Z) : Z :=
  if v <? 26 then 65 + v
  else if v <? 52 then 97 + (v - 26)
  else if v <? 62 then 48 + (v - 52)
  else if v =? 62 then 43 else 47.

Definition b64_val (c : Z) : option Z :=
  if in_range 65 90 c then Some (c - 65)
  else if in_range 97 122 c then Some (c - 97 + 26)
  else if in_range 48 57 c then Some (c - 48 + 52)
  else if c =? 43 then Some 62
  else if c =? 47 then Some 63
  else None.

(* base64.b64encode: RFC 4648 with padding *)
Fixpoint b64encode (l : list Z) : list Z :=
  match l with
  | [] => []
  | [a] => [b64_char (a / 4); b64_char ((a mod 4) * 16); PAD; PAD]
  | [a; b] => [b64_char (a / 4); b64_char ((a mod 4) * 16 + b / 16); b64_char ((b mod 16) * 4); PAD]
  | a :: b :: c :: r =>
      b64_char (a / 4) :: b64_char ((a mod 4) * 16 + b / 16)
      :: b64_char ((b mod 16) * 4 + c / 64) :: b64_char (c mod 64) :: b64encode r
  end.

(* bytes.rstrip(b'=') *)
Fixpoint rstrip_pad (l : list Z) : list Z :=
  match l with
  | [] => []
  | x :: r => match rstrip_pad r with
              | [] => if x =? PAD then [] else [x]
              | r' => x :: r'
              end
  end.

Definition encode_bin_value (v : list Z) : list Z := rstrip_pad (b64encode v).

(* binascii.a2b_base64(data, strict_mode=False): quad_pos, leftchar, pads; [out] is reversed.
   None = binascii.Error (either "Incorrect padding" or "number of data characters cannot be 1
   more than a multiple of 4"). *)
Fixpoint a2b (l : list Z) (qp lc pads : Z) (out : list Z) : option (list Z) :=
  match l with
  | [] => if qp =? 0 then Some (rev out) else None
  | c :: r =>
      if c =? PAD then
        if (2 <=? qp) && (4 <=? qp + (pads + 1)) then Some (rev out)        (* goto done *)
        else a2b r qp lc (if 2 <=? qp then pads + 1 else pads) out
      else match b64_val c with
           | None => a2b r qp lc pads out                                    (* skipped *)
           | Some v =>
               if qp =? 0 then a2b r 1 v 0 out
               else if qp =? 1 then a2b r 2 (v mod 16) 0 ((lc * 4 + v / 16) :: out)
               else if qp =? 2 then a2b r 3 (v mod 4) 0 ((lc * 16 + v / 4) :: out)
               else a2b r 0 0 0 ((lc * 64 + v) :: out)
           end
  end.

Definition b64decode (v : list Z) : option (list Z) := a2b v 0 0 0 [].

Definition repad (v : list Z) : list Z :=
  v ++ repeat PAD (Nat.modulo (length v) 4).

Definition decode_bin_value (v : list Z) : option (list Z) := b64decode (repad v).
