(* RecvLedger -- executable model of grpclib's receive-side flow-control bookkeeping (property C08).

   Transcribed from /repo/grpclib/protocol.py (Buffer.add / eof / read / unacked_size,
   Connection.ack, EventsProcessor.register.release_stream, process_data_received,
   process_stream_ended, H2Protocol.connection_made) and /repo/grpclib/config.py (_range validator of
   the two window fields).  No proofs in this file.

   A HISTORY is the list of things the EventsProcessor / the application do, in the order in which
   they happen on the (single-threaded) event loop:

     Open sid          EventsProcessor.register(stream): streams[sid] = stream with a fresh Buffer
                       (server: RequestReceived; client: send_request).  A dict assignment: an already
                       registered id is OVERWRITTEN (h2 never hands out the same id twice; the theorems
                       that need it carry the hypothesis `legal`).
     Data sid n pad    h2 produced DataReceived(stream_id = sid, len(data) = n,
                       flow_controlled_length = n + pad + 1 if padded else n) and
                       process_data_received ran.
     EndStream sid     StreamEnded: stream.__ended__() -> Buffer.eof()
     Read sid size     the application task calls Buffer.read(size) (Stream.recv_data); it runs until it
                       returns, raises, or blocks in `await self._unacked.get()` on an empty queue
     Wake sid          the task blocked in Buffer.read is scheduled again (asyncio.Queue.get returns
                       an item if there is one, else keeps waiting)
     Cancel sid        the task blocked in Buffer.read gets CancelledError (handler cancelled after
                       RST_STREAM / connection loss / deadline; client task cancelled); asyncio.Queue.get
                       leaves the queue untouched in that case
     Release sid       release_stream() is called (server: `finally` of request_handler AND the task's
                       done-callback; client: Stream.__aexit__) -- every call, also the repeated ones.
                       The Buffer object outlives the registration (the Stream object still holds it): a
                       released buffer stays in the model's table, flagged `brel`, and Read / Wake / Cancel
                       keep working on it (a reader task left running after the `async with` block, a
                       recv_message() after the block, a handler-spawned reader) -- "read after release".
     Close             connection.is_closing() becomes true (transport closing / Connection.close()).
                       NOTE: after Connection.close() a Read that pops an item still reaches
                       acknowledge_received_data, but Connection.flush() then touches the deleted `_transport`
                       if h2 has bytes pending and the read dies with AttributeError.  Whether it does depends
                       on h2's outbound queue (not modelled); the model lets the read go on.  The ledger
                       theorems hold either way; what a read pops is claimed for live connections only, and
                       the driver issues no reads on a closed connection.
     Pause / Resume    transport.pause_writing() / resume_writing(): Connection.write_ready is cleared / set.
                       NO credit path consults write_ready (Connection.ack acknowledges and flushes at once),
                       so both are identity steps; they are in the alphabet so that the theorems quantify
                       over histories with pauses at any point.

   "stream reset by the peer" on the server is  Cancel sid (if the handler is blocked in a read) followed by
   Release sid (done-callback; plus the `finally` one if the coroutine had started); "handler task
   cancelled before its first step" is just  Release sid  with no Read before it; "client leaves the context"
   is  Release sid  (possibly followed by more Read events on the released buffer); the theorems quantify over ALL interleavings of these primitive events.

   OUTPUTS are what crosses the h2 API boundary (and two ghost markers):
     ORecv sid k   k flow-controlled bytes were received for sid          (DataReceived)
     OAck sid k    H2Connection.acknowledge_received_data(k, sid), k <> 0 (Connection.ack skips size 0)
     ODrop sid k   ghost: release on a closing connection leaves k queued credit un-acknowledged (no call is
                   made; the items stay in the released buffer, see `forfeited`)
     OBlock sid    ghost: Buffer.read is now suspended on the empty queue
     ORead sid r   Buffer.read finished with result r
*)
From Coq Require Import ZArith List Bool.
From GV Require Import Gen.Facts.
Import ListNotations.
Open Scope Z_scope.

(* ---- Buffer ---------------------------------------------------------------------------------- *)

(* UnackedData(data, data_size, ack_size) without the payload; the EOF marker is (0, 0) *)
Record item := mkItem { it_len : Z; it_ack : Z }.
Definition eof_marker : item := mkItem 0 0.

Record buf := mkBuf {
  bq : list item;          (* _unacked (FIFO) *)
  backed : Z;              (* _acked_size *)
  beof : bool;             (* _eof *)
  bpend : option Z;        (* Some size: a read(size) is suspended in `await self._unacked.get()` *)
  brel : bool              (* ghost: release_stream has popped this stream from EventsProcessor.streams *)
}.
Definition new_buf : buf := mkBuf [] 0 false None false.

Definition qsum (q : list item) : Z := fold_right (fun it a => it_ack it + a) 0 q.
Definition lsum (q : list item) : Z := fold_right (fun it a => it_len it + a) 0 q.

(* h2: frame.flow_controlled_length = len(data) + pad_length + 1 for a padded frame *)
Definition fcl (n : Z) (pad : option Z) : Z :=
  match pad with None => n | Some p => n + p + 1 end.

(* Buffer.add: `if not ack_size: return` *)
Definition buf_add (b : buf) (n f : Z) : buf :=
  if f =? 0 then b else mkBuf (bq b ++ [mkItem n f]) (backed b) (beof b) (bpend b) (brel b).

(* Buffer.eof *)
Definition buf_eof (b : buf) : buf := mkBuf (bq b ++ [eof_marker]) (backed b) true (bpend b) (brel b).

Inductive pstat := PEnough | PBreak | PBlocked.

(* the `while self._acked_size < size:` loop of Buffer.read; returns the popped items (in order), the
   rest of the queue, the new _acked_size, and how the loop ended *)
Fixpoint pump (q : list item) (acked size : Z) {struct q} : list item * list item * Z * pstat :=
  if acked <? size then
    match q with
    | [] => ([], [], acked, PBlocked)                       (* await self._unacked.get() suspends *)
    | it :: q' =>
      if it_ack it =? 0 then ([it], q', acked, PBreak)      (* `if not ack_size: break` (marker consumed) *)
      else let '(p, r, a, st) := pump q' (acked + it_len it) size in
           (it :: p, r, a, st)                              (* _acked_size += data_size; ack(ack_size) *)
    end
  else ([], q, acked, PEnough).

Inductive rres := RData | REof | REmpty | RAssert | RBadSize | RBusy | RNoStream.

Inductive out :=
| ORecv (sid k : Z) | OAck (sid k : Z) | ODrop (sid k : Z) | OBlock (sid : Z) | ORead (sid : Z) (r : rres).

(* the `_ack_callback(ack_size)` calls of the popped items = Connection.ack(sid, ack_size) *)
Definition ack_out (sid k : Z) : list out := if k =? 0 then [] else [OAck sid k].
Definition acks_of (sid : Z) (p : list item) : list out := flat_map (fun it => ack_out sid (it_ack it)) p.

(* the part of Buffer.read after the loop *)
Definition finish (q : list item) (acked : Z) (eof rel : bool) (size : Z) : buf * rres :=
  if eof && (acked =? 0) then (mkBuf q acked eof None rel, REof)
  else if acked <? size then (mkBuf q acked eof None rel, RAssert) (* 'Received less data than expected' *)
  else (mkBuf q (acked - size) eof None rel, RData).

(* run the loop (from a fresh read or after a wake-up) and what follows it *)
Definition read_loop (sid : Z) (b : buf) (size : Z) : buf * list out :=
  let '(p, r, a, st) := pump (bq b) (backed b) size in
  match st with
  | PBlocked => (mkBuf r a (beof b) (Some size) (brel b), acks_of sid p ++ [OBlock sid])
  | _ => let '(b', res) := finish r a (beof b) (brel b) size in (b', acks_of sid p ++ [ORead sid res])
  end.

Definition is_nil {A} (l : list A) : bool := match l with [] => true | _ => false end.

(* Buffer.read(size), started by the application *)
Definition buf_read (sid : Z) (b : buf) (size : Z) : buf * list out :=
  match bpend b with
  | Some _ => (b, [ORead sid RBusy])                      (* outside the alphabet: one reader per stream *)
  | None =>
    if size <? 0 then (b, [ORead sid RBadSize])           (* assert size >= 0 *)
    else if size =? 0 then (b, [ORead sid REmpty])        (* return b'' *)
    else if beof b && is_nil (bq b)                       (* `if not self._eof or not self._unacked.empty()` false *)
    then let '(b', res) := finish (bq b) (backed b) (beof b) (brel b) size in (b', [ORead sid res])
    else read_loop sid b size
  end.

(* the suspended read is resumed; asyncio.Queue.get keeps waiting while the queue is empty *)
Definition buf_wake (sid : Z) (b : buf) : buf * list out :=
  match bpend b with
  | None => (b, [])
  | Some size => if is_nil (bq b) then (b, []) else read_loop sid b size
  end.

Definition buf_cancel (b : buf) : buf := mkBuf (bq b) (backed b) (beof b) None (brel b).

(* release_stream: on a live connection buffer.unacked_size() DRAINS the queue (get_nowait per item) and the sum
   is acknowledged; on a closing connection unacked_size() is not even evaluated, the queue stays as it is *)
Definition buf_release (closing : bool) (b : buf) : buf :=
  mkBuf (if closing then bq b else []) (backed b) (beof b) (bpend b) true.

(* ---- registry and connection ------------------------------------------------------------------ *)

(* every Buffer ever created, by stream id; EventsProcessor.streams = the entries with brel = false *)
Definition registry := list (Z * buf).

Fixpoint lookup (sid : Z) (r : registry) : option buf :=
  match r with
  | [] => None
  | (k, b) :: r' => if k =? sid then Some b else lookup sid r'
  end.
Definition remove (sid : Z) (r : registry) : registry := filter (fun p => negb (fst p =? sid)) r.
Definition set (sid : Z) (b : buf) (r : registry) : registry := (sid, b) :: remove sid r.

(* EventsProcessor.streams.get(sid) *)
Definition lookup_live (sid : Z) (r : registry) : option buf :=
  match lookup sid r with Some b => if brel b then None else Some b | None => None end.

Record st := mkSt { reg : registry; closing : bool }.
Definition init : st := mkSt [] false.

Inductive event :=
| Open (sid : Z) | Data (sid n : Z) (pad : option Z) | EndStream (sid : Z)
| Read (sid size : Z) | Wake (sid : Z) | Cancel (sid : Z) | Release (sid : Z) | Close | Pause | Resume.

Definition with_live_buf (s : st) (sid : Z) (f : buf -> buf * list out) (dflt : list out) : st * list out :=
  match lookup_live sid (reg s) with
  | None => (s, dflt)
  | Some b => let '(b', o) := f b in (mkSt (set sid b' (reg s)) (closing s), o)
  end.

Definition with_buf (s : st) (sid : Z) (f : buf -> buf * list out) (dflt : list out) : st * list out :=
  match lookup sid (reg s) with
  | None => (s, dflt)
  | Some b => let '(b', o) := f b in (mkSt (set sid b' (reg s)) (closing s), o)
  end.

Definition step (s : st) (e : event) : st * list out :=
  match e with
  | Open sid => (mkSt (set sid new_buf (reg s)) (closing s), [])
  | Data sid n pad =>
    let f := fcl n pad in
    match lookup_live sid (reg s) with
    | Some b => (mkSt (set sid (buf_add b n f) (reg s)) (closing s), [ORecv sid f])
    | None => (s, ORecv sid f :: ack_out sid f)            (* unknown / finished stream: immediate ack *)
    end
  | EndStream sid => with_live_buf s sid (fun b => (buf_eof b, [])) []
  | Read sid size => with_buf s sid (fun b => buf_read sid b size) [ORead sid RNoStream]
  | Wake sid => with_buf s sid (buf_wake sid) []
  | Cancel sid => with_buf s sid (fun b => (buf_cancel b, [])) []
  | Release sid =>
    with_live_buf s sid                                    (* None: already released *)
      (fun b => (buf_release (closing s) b,
                 if closing s then [ODrop sid (qsum (bq b))]   (* `if not self.connection.is_closing()` *)
                 else ack_out sid (qsum (bq b))))              (* connection.ack(sid, buffer.unacked_size()) *)
      []
  | Close => (mkSt (reg s) true, [])
  | Pause => (s, [])                                       (* write_ready.clear(): no credit path reads it *)
  | Resume => (s, [])                                      (* write_ready.set() + flush of what h2 queued *)
  end.

Fixpoint run (s : st) (h : list event) : st * list out :=
  match h with
  | [] => (s, [])
  | e :: h' => let '(s1, o1) := step s e in let '(s2, o2) := run s1 h' in (s2, o1 ++ o2)
  end.

(* ---- the ledger: sums over the outputs -------------------------------------------------------- *)

Definition recv1 (x : Z) (o : out) : Z := match o with ORecv s k => if s =? x then k else 0 | _ => 0 end.
Definition cred1 (x : Z) (o : out) : Z := match o with OAck s k => if s =? x then k else 0 | _ => 0 end.
Definition drop1 (x : Z) (o : out) : Z := match o with ODrop s k => if s =? x then k else 0 | _ => 0 end.
Definition recvA (o : out) : Z := match o with ORecv _ k => k | _ => 0 end.
Definition credA (o : out) : Z := match o with OAck _ k => k | _ => 0 end.
Definition dropA (o : out) : Z := match o with ODrop _ k => k | _ => 0 end.
Definition total (f : out -> Z) (os : list out) : Z := fold_right (fun o a => f o + a) 0 os.

Definition received (x : Z) := total (recv1 x).     (* per stream *)
Definition credited (x : Z) := total (cred1 x).
Definition dropped (x : Z) := total (drop1 x).
Definition received_conn := total recvA.            (* connection level: h2 credits both windows with every call *)
Definition credited_conn := total credA.
Definition dropped_conn := total dropA.

(* credit of everything still queued in a buffer, registered or released *)
Definition queued (x : Z) (s : st) : Z := match lookup x (reg s) with Some b => qsum (bq b) | None => 0 end.
Definition queued_conn (s : st) : Z := fold_right (fun p a => qsum (bq (snd p)) + a) 0 (reg s).
(* credit still owed for data sitting in REGISTERED buffers ... *)
Definition held (x : Z) (s : st) : Z := match lookup_live x (reg s) with Some b => qsum (bq b) | None => 0 end.
Definition held_conn (s : st) : Z :=
  fold_right (fun p a => (if brel (snd p) then 0 else qsum (bq (snd p))) + a) 0 (reg s).
(* ... and credit left in RELEASED buffers (only a release on a closing connection leaves any) *)
Definition forfeited (x : Z) (s : st) : Z :=
  match lookup x (reg s) with Some b => if brel b then qsum (bq b) else 0 | None => 0 end.
Definition forfeited_conn (s : st) : Z :=
  fold_right (fun p a => (if brel (snd p) then qsum (bq (snd p)) else 0) + a) 0 (reg s).

(* ---- well-formedness of histories ------------------------------------------------------------- *)

(* sizes are lengths: h2 never reports a negative length or padding *)
Definition event_ok (e : event) : bool :=
  match e with
  | Data _ n None => 0 <=? n
  | Data _ n (Some p) => (0 <=? n) && (0 <=? p)
  | _ => true
  end.

(* `Open sid` only for an id that has not been used before (h2 never repeats a stream id) *)
Fixpoint legal (s : st) (h : list event) : bool :=
  match h with
  | [] => true
  | e :: h' =>
    (match e with Open sid => match lookup sid (reg s) with None => true | Some _ => false end | _ => true end)
    && legal (fst (step s e)) h'
  end.

Fixpoint opens (h : list event) : list Z :=
  match h with [] => [] | Open sid :: h' => sid :: opens h' | _ :: h' => opens h' end.

(* ---- configuration and the connection preface ------------------------------------------------- *)

(* config.py: _range(_WMIN, _WMAX) on http2_connection_window_size / http2_stream_window_size
   (integers only: _of_type(int) refuses everything else before) *)
Definition window_valid (w : Z) : bool := if w <? cfg_wmin then false else if w >? cfg_wmax then false else true.

(* Configuration(http2_connection_window_size = cw, http2_stream_window_size = sw): None = ValueError *)
Definition configure (cw sw : Z) : option (Z * Z) :=
  if window_valid cw && window_valid sw then Some (cw, sw) else None.

Definition h2_initial_window : Z := 65535.         (* h2 local_settings.initial_window_size of a fresh connection *)
Definition h2_max_window : Z := 2147483647.        (* h2 MAX_WINDOW_INCREMENT = LARGEST_FLOW_CONTROL_WINDOW = 2^31-1 *)

(* what connection_made puts on the wire after the preface: an optional WINDOW_UPDATE(stream 0, incr)
   and an optional SETTINGS{INITIAL_WINDOW_SIZE: v}.  None = h2 raises (ValueError for an increment
   outside 1..2^31-1, FlowControlError for a window above 2^31-1, InvalidSettingsValueError). *)
Record preface := mkPreface { wu_incr : option Z; set_iws : option Z }.

Definition h2_increment (cur incr : Z) : option Z :=
  if (1 <=? incr) && (incr <=? h2_max_window) then
    if cur + incr >? h2_max_window then None else Some (cur + incr)
  else None.

Definition connection_made (cw sw : Z) : option preface :=
  let conn_delta := cw - h2_initial_window in
  let stream_delta := sw - h2_initial_window in
  match (if conn_delta =? 0 then Some None
         else match h2_increment h2_initial_window conn_delta with
              | Some _ => Some (Some conn_delta) | None => None end) with
  | None => None
  | Some wu =>
    if stream_delta =? 0 then Some (mkPreface wu None)
    else if (0 <=? sw) && (sw <=? h2_max_window) then Some (mkPreface wu (Some sw))
    else None
  end.

(* the windows the peer computes from that preface (RFC 7540 6.9.2: both start at 65535) *)
Definition advertised_conn (p : preface) : Z :=
  match wu_incr p with None => h2_initial_window | Some d => h2_initial_window + d end.
Definition advertised_stream (p : preface) : Z :=
  match set_iws p with None => h2_initial_window | Some v => v end.

(* ---- entry point of the extracted driver ------------------------------------------------------ *)

(* the trace: for every event the outputs it caused, and the final state *)
Fixpoint trace (s : st) (h : list event) : list (list out) * st :=
  match h with
  | [] => ([], s)
  | e :: h' => let '(s1, o1) := step s e in let '(t, s2) := trace s1 h' in (o1 :: t, s2)
  end.
