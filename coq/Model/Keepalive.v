(* Model of grpclib's keepalive (grpclib/protocol.py: Connection.initialize, _ping,
   _is_need_send_ping, close, headers_send_process, data_send_process, ping_ack_process;
   EventsProcessor.process_ping_ack_received) as a timed automaton on a Z clock.

   CLOCK.  One tick is 2^-20 s.  The correspondence harness only generates instants and
   configuration values that are dyadic rationals (multiples of 2^-10 s, below 2^20 s), so every
   float operation the code performs on them (loop.time() + delay in call_later,
   time.monotonic() - last_ping_sent, the comparison with the minimum interval) is exact and equals
   the integer operation on ticks done here.  Outside that grid the model speaks about the real
   numbers the floats approximate.

   TIMERS.  `ping_timer` is the due time of `_ping_handle`, `close_timer` the due time of
   `_close_by_ping_handler`; `None` = not armed or cancelled.  asyncio runs a timer callback when the
   loop clock has reached its due time; the virtual loop runs it AT its due time, and so does the
   model (an armed timer is never in the past: invariant `timers_ahead` in the proofs).

   STEPS.  `Tick t incl cf` lets time pass up to instant t but stops at the first instant at which a
   timer is due (so one step fires the timers of at most one instant; "advance to t" is the
   repetition of `Tick t` and theorems quantify over all event lists).  incl = true fires timers due
   at or before t, incl = false only those due strictly before t (an I/O event at instant t is
   then processed before a timer due at t, as asyncio does within one loop iteration).  When the
   ping timer and the close timer are due at the same instant asyncio's heap decides which callback
   runs first; `cf` (close first) is that choice -- theorems hold for every choice.
     - close first: Connection.close cancels `_ping_handle`, `_ping` does not run;
     - ping first: `_ping` runs (it may send a PING; it finds the close timer still armed, so it arms
       nothing) and then close runs.
   `Ack` = a PING frame with the ACK flag arrives (ANY ack cancels and clears the close timer, also
   one for an older ping, also an unsolicited one: ping_ack_process looks at nothing else).
   `DataSent` / `HeadersSent` = data_send_process / headers_send_process.  `StreamOpened` /
   `StreamClosed` = an h2 stream becomes open / stops being open (the code asks h2:
   any(s.open for s in streams.values())).  `Lost` = Connection.close called for another reason
   (connection_lost, GOAWAY, protocol error): both timers are cancelled.  `Acked` = Connection.ack
   (the application consumed inbound DATA, flow-control credit goes back to the peer): no effect on
   any keepalive variable -- in particular it does NOT reset ping_count_in_sequence.

   Totalisation: with time <= 0 or timeout <= 0 (rejected by Configuration's validators, see
   Gen/FactsC17.v) call_later would fire at once; the model clamps `now` with Z.max instead.  No
   theorem relies on that branch: all of them assume cfg_ok. *)
From Coq Require Import ZArith List Bool.
From GV Require Import Lib.Str Gen.FactsC17.
Import ListNotations.
Open Scope Z_scope.

Definition ticks_per_second : Z := 1048576.     (* 2^20 *)

Record cfg := mkCfg {
  k_enabled : bool;     (* _keepalive_time is not None *)
  k_time : Z;           (* _keepalive_time *)
  k_timeout : Z;        (* _keepalive_timeout *)
  k_permit : bool;      (* _keepalive_permit_without_calls *)
  k_maxp : Z;           (* _http2_max_pings_without_data *)
  k_minint : Z          (* _http2_min_sent_ping_interval_without_data *)
}.

Record st := mkSt {
  now : Z;
  ping_timer : option Z;      (* _ping_handle *)
  close_timer : option Z;     (* _close_by_ping_handler *)
  pcount : Z;                 (* ping_count_in_sequence *)
  last_ping : option Z;       (* last_ping_sent *)
  last_data : option Z;       (* last_data_sent *)
  opens : Z;                  (* number of h2 streams with .open *)
  closed : bool               (* Connection.close has run *)
}.

Inductive ev :=
| Tick (t : Z) (incl close_first : bool)
| Ack
| DataSent
| HeadersSent
| StreamOpened
| StreamClosed
| Lost
| Acked.          (* Connection.ack: INBOUND data was consumed and credited (WINDOW_UPDATE) *)

(* what is written to the log: the outputs (IPing = PING frame sent, ISkip = `_ping` ran and
   `_is_need_send_ping` said no, IClose = the close timer ran Connection.close) and the inputs *)
Inductive item := IPing | ISkip | IClose | IAck | IData | IHeaders | IOpen | IShut | ILost | ITick
  | IRecv.

Definition log := list (Z * item).

Definition item_eqb (a b : item) : bool :=
  match a, b with
  | IPing, IPing | ISkip, ISkip | IClose, IClose | IAck, IAck | IData, IData
  | IHeaders, IHeaders | IOpen, IOpen | IShut, IShut | ILost, ILost | ITick, ITick
  | IRecv, IRecv => true
  | _, _ => false
  end.

(* Configuration.__post_init__ accepts exactly these numeric values (see C17_validators) *)
Definition cfg_ok (c : cfg) : Prop :=
  0 < k_time c /\ 0 < k_timeout c /\ 0 <= k_maxp c /\ 0 < k_minint c.

Definition cfg_okb (c : cfg) : bool :=
  (0 <? k_time c) && (0 <? k_timeout c) && (0 <=? k_maxp c) && (0 <? k_minint c).

(* Connection.__init__ + initialize() at instant t0 *)
Definition init (c : cfg) (t0 : Z) : st :=
  mkSt t0 (if k_enabled c then Some (t0 + k_time c) else None) None 0 None None 0 false.

(* _is_need_send_ping, test by test:
     if not permit_without_calls: if not any(s.open ...): return False
     if max_pings != 0 and ping_count_in_sequence >= max_pings: return False
     if last_ping_sent is not None and monotonic() - last_ping_sent < min_interval: return False
     return True *)
Definition need_ping (c : cfg) (s : st) : bool :=
  if negb (k_permit c) && negb (0 <? opens s) then false
  else if negb (k_maxp c =? 0) && (k_maxp c <=? pcount s) then false
  else match last_ping s with
       | Some lp => if now s - lp <? k_minint c then false else true
       | None => true
       end.

(* _ping, run at instant (now s) *)
Definition fire_ping (c : cfg) (s : st) : st * log :=
  if need_ping c s then
    (mkSt (now s) (Some (now s + k_time c))
          (match close_timer s with None => Some (now s + k_timeout c) | Some d => Some d end)
          (pcount s + 1) (Some (now s)) (last_data s) (opens s) (closed s),
     [(now s, IPing)])
  else
    (mkSt (now s) (Some (now s + k_time c)) (close_timer s) (pcount s) (last_ping s)
          (last_data s) (opens s) (closed s),
     [(now s, ISkip)]).

(* Connection.close as the callback of the close timer *)
Definition fire_close (s : st) : st * log :=
  (mkSt (now s) None None (pcount s) (last_ping s) (last_data s) (opens s) true,
   [(now s, IClose)]).

Definition set_now (s : st) (t : Z) : st :=
  mkSt t (ping_timer s) (close_timer s) (pcount s) (last_ping s) (last_data s) (opens s) (closed s).

Definition earliest (a b : option Z) : option Z :=
  match a, b with
  | Some x, Some y => Some (Z.min x y)
  | Some x, None => Some x
  | None, y => y
  end.

Definition is_due (incl : bool) (d t : Z) : bool := if incl then d <=? t else d <? t.

Definition opt_is (o : option Z) (d : Z) : bool :=
  match o with Some x => x =? d | None => false end.

Definition idle (s : st) (t : Z) : st * log :=
  (set_now s (Z.max (now s) t), [(Z.max (now s) t, ITick)]).

Definition tick (c : cfg) (s : st) (t : Z) (incl cf : bool) : st * log :=
  if closed s then idle s t
  else match earliest (ping_timer s) (close_timer s) with
       | None => idle s t
       | Some d =>
           if is_due incl d t then
             let s0 := set_now s (Z.max (now s) d) in
             let pd := opt_is (ping_timer s) d in
             let cd := opt_is (close_timer s) d in
             if pd && cd then
               if cf then fire_close s0
               else let '(s1, o1) := fire_ping c s0 in
                    let '(s2, o2) := fire_close s1 in (s2, o1 ++ o2)
             else if cd then fire_close s0
             else fire_ping c s0
           else idle s t
       end.

Definition step (c : cfg) (s : st) (e : ev) : st * log :=
  match e with
  | Tick t incl cf => tick c s t incl cf
  | Ack =>            (* ping_ack_process *)
      (mkSt (now s) (ping_timer s) None (pcount s) (last_ping s) (last_data s) (opens s) (closed s),
       [(now s, IAck)])
  | DataSent =>       (* data_send_process *)
      (mkSt (now s) (ping_timer s) (close_timer s) 0 (last_ping s) (Some (now s)) (opens s) (closed s),
       [(now s, IData)])
  | HeadersSent =>    (* headers_send_process *)
      (mkSt (now s) (ping_timer s) (close_timer s) 0 (last_ping s) (last_data s) (opens s) (closed s),
       [(now s, IHeaders)])
  | StreamOpened =>
      (mkSt (now s) (ping_timer s) (close_timer s) (pcount s) (last_ping s) (last_data s)
            (opens s + 1) (closed s),
       [(now s, IOpen)])
  | StreamClosed =>
      (mkSt (now s) (ping_timer s) (close_timer s) (pcount s) (last_ping s) (last_data s)
            (Z.max 0 (opens s - 1)) (closed s),
       [(now s, IShut)])
  | Lost =>           (* Connection.close from connection_lost / GOAWAY / protocol error *)
      (mkSt (now s) None None (pcount s) (last_ping s) (last_data s) (opens s) true,
       [(now s, ILost)])
  | Acked =>          (* Connection.ack touches no keepalive state: received data (and the
                         WINDOW_UPDATE it triggers) is not "data sent" *)
      (s, [(now s, IRecv)])
  end.

(* one step on (state, log so far) *)
Definition stepl (c : cfg) (a : st * log) (e : ev) : st * log :=
  let '(s1, o) := step c (fst a) e in (s1, snd a ++ o).

Definition run_from (c : cfg) (a : st * log) (evs : list ev) : st * log :=
  fold_left (stepl c) evs a.

Definition run (c : cfg) (t0 : Z) (evs : list ev) : st * log := run_from c (init c t0, []) evs.

(* per-event trace for the correspondence check: the items each event logged and the state after *)
Fixpoint trace (c : cfg) (s : st) (evs : list ev) : list (log * st) :=
  match evs with
  | [] => []
  | e :: r => let '(s1, o) := step c s e in (o, s1) :: trace c s1 r
  end.

(* ---- trace predicates used by the theorems (all computable) ----------------------------------- *)

Definition has (i : item) (l : log) : bool := existsb (fun x => item_eqb (snd x) i) l.

(* instants of the PING frames, in order *)
Definition ping_times (l : log) : list Z :=
  map fst (filter (fun x => item_eqb (snd x) IPing) l).

Definition count_item (i : item) (l : log) : Z :=
  Z.of_nat (List.length (filter (fun x => item_eqb (snd x) i) l)).

(* number of PINGs after the last data/headers item *)
Fixpoint tailcount (acc : Z) (l : log) : Z :=
  match l with
  | [] => acc
  | (_, IPing) :: r => tailcount (acc + 1) r
  | (_, IData) :: r | (_, IHeaders) :: r => tailcount 0 r
  | _ :: r => tailcount acc r
  end.

(* instant of the last PING *)
Fixpoint lastping (acc : option Z) (l : log) : option Z :=
  match l with
  | [] => acc
  | (t, IPing) :: r => lastping (Some t) r
  | _ :: r => lastping acc r
  end.

Definition is_data (x : Z * item) : bool :=
  match snd x with IData | IHeaders => true | _ => false end.

(* ---- the SOURCE of _is_need_send_ping (Gen/FactsC17.v, regenerated from /repo on every run),
        interpreted on the model state.  None = the Python expression raises (a comparison or
        subtraction with None is a TypeError). -------------------------------------------------- *)

Inductive kval := VNum (z : Z) | VNoneV | VBool (b : bool).

Definition n_time : list Z := [95; 107; 101; 101; 112; 97; 108; 105; 118; 101; 95; 116; 105; 109; 101].   (* "_keepalive_time" *)
Definition n_timeout : list Z := [95; 107; 101; 101; 112; 97; 108; 105; 118; 101; 95; 116; 105; 109; 101; 111; 117; 116].   (* "_keepalive_timeout" *)
Definition n_permit : list Z := [95; 107; 101; 101; 112; 97; 108; 105; 118; 101; 95; 112; 101; 114; 109; 105; 116; 95; 119; 105; 116; 104; 111; 117; 116; 95; 99; 97; 108; 108; 115].   (* "_keepalive_permit_without_calls" *)
Definition n_maxp : list Z := [95; 104; 116; 116; 112; 50; 95; 109; 97; 120; 95; 112; 105; 110; 103; 115; 95; 119; 105; 116; 104; 111; 117; 116; 95; 100; 97; 116; 97].   (* "_http2_max_pings_without_data" *)
Definition n_minint : list Z := [95; 104; 116; 116; 112; 50; 95; 109; 105; 110; 95; 115; 101; 110; 116; 95; 112; 105; 110; 103; 95; 105; 110; 116; 101; 114; 118; 97; 108; 95; 119; 105; 116; 104; 111; 117; 116; 95; 100; 97; 116; 97].   (* "_http2_min_sent_ping_interval_without_data" *)
Definition n_count : list Z := [112; 105; 110; 103; 95; 99; 111; 117; 110; 116; 95; 105; 110; 95; 115; 101; 113; 117; 101; 110; 99; 101].   (* "ping_count_in_sequence" *)
Definition n_last_ping : list Z := [108; 97; 115; 116; 95; 112; 105; 110; 103; 95; 115; 101; 110; 116].   (* "last_ping_sent" *)

Fixpoint eval_expr (c : cfg) (s : st) (e : kexpr) : option kval :=
  match e with
  | ECfg n =>
      if zlist_eqb n n_permit then Some (VBool (k_permit c))
      else if zlist_eqb n n_maxp then Some (VNum (k_maxp c))
      else if zlist_eqb n n_minint then Some (VNum (k_minint c))
      else if zlist_eqb n n_time then Some (if k_enabled c then VNum (k_time c) else VNoneV)
      else if zlist_eqb n n_timeout then Some (VNum (k_timeout c))
      else None
  | EAttr n =>
      if zlist_eqb n n_count then Some (VNum (pcount s))
      else if zlist_eqb n n_last_ping then
        Some (match last_ping s with Some t => VNum t | None => VNoneV end)
      else None
  | ENow => Some (VNum (now s))
  | EAnyOpen => Some (VBool (0 <? opens s))
  | ENone => Some VNoneV
  | EConst n => Some (VNum n)
  | ESub a b =>
      match eval_expr c s a, eval_expr c s b with
      | Some (VNum x), Some (VNum y) => Some (VNum (x - y))
      | _, _ => None
      end
  | EAdd a b =>
      match eval_expr c s a, eval_expr c s b with
      | Some (VNum x), Some (VNum y) => Some (VNum (x + y))
      | _, _ => None
      end
  end.

Definition truthy (v : kval) : bool :=
  match v with VNum z => negb (z =? 0) | VNoneV => false | VBool b => b end.

Definition cmp_z (op : cmpop) (x y : Z) : bool :=
  match op with
  | OpEq => x =? y | OpNe => negb (x =? y) | OpLt => x <? y | OpLe => x <=? y
  | OpGt => y <? x | OpGe => y <=? x
  end.

Fixpoint eval_cond (c : cfg) (s : st) (k : kcond) : option bool :=
  match k with
  | KConst b => Some b
  | KNot a => option_map negb (eval_cond c s a)
  | KAnd a b =>                                   (* `and` short-circuits *)
      match eval_cond c s a with
      | Some true => eval_cond c s b
      | r => r
      end
  | KOr a b =>                                    (* `or` short-circuits *)
      match eval_cond c s a with
      | Some false => eval_cond c s b
      | r => r
      end
  | KIte t a b =>                                 (* if t: return a  /  else-or-fall-through: b *)
      match eval_cond c s t with
      | Some true => eval_cond c s a
      | Some false => eval_cond c s b
      | None => None
      end
  | KCmp op a b =>
      match eval_expr c s a, eval_expr c s b with
      | Some (VNum x), Some (VNum y) => Some (cmp_z op x y)
      | _, _ => None
      end
  | KIsNotNone e =>
      match eval_expr c s e with
      | Some VNoneV => Some false
      | Some _ => Some true
      | None => None
      end
  | KTruth e => option_map truthy (eval_expr c s e)
  | KNeedPing => None
  | KOpaque => None
  end.

(* the need-ping predicate of the source: ONE condition tree obtained by symbolic execution of the
   (normalised) method body, see tools/facts_C17.py *)
Definition need_ping_src (c : cfg) (s : st) : option bool := eval_cond c s need_send_ping_src.

(* ---- Configuration: role defaults and validators, from the generated field table ------------- *)

Inductive role := RServer | RClient | RTest.

Definition field_of (n : list Z) : option cfield :=
  find (fun f => zlist_eqb (f_name f) n) keepalive_fields.

(* _with_defaults: a field left at _DEFAULT takes metadata[<role>-default] *)
Definition resolved (r : role) (f : cfield) : option cval :=
  match f_default f with
  | CRoleDefault =>
      match r with RServer => f_server f | RClient => f_client f | RTest => f_test f end
  | v => Some v
  end.

Definition role_value (r : role) (n : list Z) : option cval :=
  match field_of n with Some f => resolved r f | None => None end.

(* Configuration().__for_<role>__() as a model configuration *)
Definition default_cfg (r : role) : option cfg :=
  match role_value r n_time, role_value r n_timeout, role_value r n_permit,
        role_value r n_maxp, role_value r n_minint with
  | Some tm, Some (CSec to), Some (CBool pm), Some (CInt mx), Some (CSec mi) =>
      match tm with
      | CSec t => Some (mkCfg true t to pm mx mi)
      | CNone => Some (mkCfg false 0 to pm mx mi)
      | _ => None
      end
  | _, _, _, _, _ => None
  end.

(* a Python value handed to a validator: None, a bool, or an int/float (`num` is the value, in
   ticks for the time-valued fields; positivity does not depend on the unit) *)
Inductive pyv := PNone | PBool (b : bool) | PNum (is_float : bool) (num : Z).

Definition pyv_num (x : pyv) : option Z :=
  match x with PNone => None | PBool b => Some (if b then 1 else 0) | PNum _ z => Some z end.

Definition rejects (t : cmpop * Z) (x : pyv) : bool :=
  match pyv_num x with
  | Some z => cmp_z (fst t) z (snd t)
  | None => true                      (* None <= 0 raises TypeError: not accepted either *)
  end.

Definition of_type (tys : list (list Z)) (x : pyv) : bool :=
  match x with
  | PNone => false
  | PBool _ => mem_str ([98; 111; 111; 108] (* "bool" *)) tys || mem_str ([105; 110; 116] (* "int" *)) tys   (* bool is a subclass of int *)
  | PNum false _ => mem_str ([105; 110; 116] (* "int" *)) tys
  | PNum true _ => mem_str ([102; 108; 111; 97; 116] (* "float" *)) tys
  end.

Fixpoint accepts (v : vdt) (x : pyv) : bool :=
  match v with
  | VOptional w => match x with PNone => true | _ => accepts w x end
  | VChain vs => (fix all (l : list vdt) : bool :=
                    match l with [] => true | w :: r => accepts w x && all r end) vs
  | VOfType tys => of_type tys x
  | VPositive => negb (rejects positive_rejects x)
  | VNonNegative => negb (rejects non_negative_rejects x)
  end.

Definition field_accepts (n : list Z) (x : pyv) : bool :=
  match field_of n with
  | Some f => match f_validate f with Some v => accepts v x | None => true end
  | None => false
  end.
