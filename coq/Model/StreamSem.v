(* Sequential semantics of the stream IR (Model/StreamIR.v) for C06: the application calls the
   operations of one client or one server stream in any order; every environment-dependent decision
   (did the peer's headers carry grpc-status, did a helper raise GRPCError, did a receive fail, is
   the stream closable, ...) branches both ways (the environment is adversarial), so one call has a
   LIST of possible results.  hyper-h2's per-stream
   send-side state machine is MODELLED here (H2Open local remote / H2Closed), not verified.
   Executable; no proofs in this file. *)
From Coq Require Import List Bool ZArith.
From GV Require Import Model.StreamIR.
Import ListNotations.

(* ---- flags ---- *)
Record flags := {
  f_send_request_done : bool; f_send_message_done : bool; f_end_done : bool;
  f_recv_initial_metadata_done : bool; f_recv_trailing_metadata_done : bool; f_cancel_done : bool;
  f_trailers_only : bool; f_send_initial_metadata_done : bool; f_send_trailing_metadata_done : bool }.

Definition no_flags : flags := Build_flags false false false false false false false false false.

Definition get_flag (fl : flags) (f : flag) : bool :=
  match f with
  | F_send_request_done => f_send_request_done fl
  | F_send_message_done => f_send_message_done fl
  | F_end_done => f_end_done fl
  | F_recv_initial_metadata_done => f_recv_initial_metadata_done fl
  | F_recv_trailing_metadata_done => f_recv_trailing_metadata_done fl
  | F_cancel_done => f_cancel_done fl
  | F_trailers_only => f_trailers_only fl
  | F_send_initial_metadata_done => f_send_initial_metadata_done fl
  | F_send_trailing_metadata_done => f_send_trailing_metadata_done fl
  end.

Definition set_flag (fl : flags) (f : flag) (b : bool) : flags :=
  match fl with
  | Build_flags a1 a2 a3 a4 a5 a6 a7 a8 a9 =>
    match f with
    | F_send_request_done => Build_flags b a2 a3 a4 a5 a6 a7 a8 a9
    | F_send_message_done => Build_flags a1 b a3 a4 a5 a6 a7 a8 a9
    | F_end_done => Build_flags a1 a2 b a4 a5 a6 a7 a8 a9
    | F_recv_initial_metadata_done => Build_flags a1 a2 a3 b a5 a6 a7 a8 a9
    | F_recv_trailing_metadata_done => Build_flags a1 a2 a3 a4 b a6 a7 a8 a9
    | F_cancel_done => Build_flags a1 a2 a3 a4 a5 b a7 a8 a9
    | F_trailers_only => Build_flags a1 a2 a3 a4 a5 a6 b a8 a9
    | F_send_initial_metadata_done => Build_flags a1 a2 a3 a4 a5 a6 a7 b a9
    | F_send_trailing_metadata_done => Build_flags a1 a2 a3 a4 a5 a6 a7 a8 b
    end
  end.

Definition flags_eqb (x y : flags) : bool :=
  match x, y with
  | Build_flags a1 a2 a3 a4 a5 a6 a7 a8 a9, Build_flags b1 b2 b3 b4 b5 b6 b7 b8 b9 =>
    eqb a1 b1 && eqb a2 b2 && eqb a3 b3 && eqb a4 b4 && eqb a5 b5 && eqb a6 b6 && eqb a7 b7
    && eqb a8 b8 && eqb a9 b9
  end.

(* ---- the modelled h2 stream ---- *)
Inductive h2s := H2Idle | H2Open (local_open remote_open : bool) | H2Closed.

Definition h2s_eqb (a b : h2s) : bool :=
  match a, b with
  | H2Idle, H2Idle | H2Closed, H2Closed => true
  | H2Open l r, H2Open l' r' => eqb l l' && eqb r r'
  | _, _ => false
  end.

Definition h2_can_send (h : h2s) : bool := match h with H2Open true _ => true | _ => false end.
Definition h2_exists (h : h2s) : bool := match h with H2Open _ _ => true | _ => false end.
Definition h2_close_local (h : h2s) : h2s :=
  match h with H2Open _ true => H2Open false true | H2Open _ false => H2Closed | x => x end.
(* h2 moves a stream to CLOSED when it refuses an input that is invalid in the stream's state *)
Definition h2_refuse (h : h2s) : h2s := match h with H2Open _ _ => H2Closed | x => x end.
Definition h2_close_remote (h : h2s) : h2s :=
  match h with H2Open true _ => H2Open true false | H2Open false _ => H2Closed | x => x end.

(* ---- frames put on the wire by this stream ---- *)
Inductive frame :=
| FHeaders (names : list hname) (end_stream : bool) (status_ok : bool)
| FData (end_stream : bool)
| FEnd                                    (* END_STREAM on an empty DATA frame *)
| FRst.

(* ---- execution ---- *)
Record ctx := { c_client_streaming : bool; c_server_streaming : bool;
                c_end : bool; c_status_ok : bool }.

Record st := { fl : flags; lend : bool; hdrs : list hname; h2 : h2s;
               out : list frame }.        (* frames emitted by the operation in progress, newest first *)

Definition with_fl (s : st) (f : flags) : st :=
  {| fl := f; lend := lend s; hdrs := hdrs s; h2 := h2 s; out := out s |}.
Definition with_lend (s : st) (b : bool) : st :=
  {| fl := fl s; lend := b; hdrs := hdrs s; h2 := h2 s; out := out s |}.
Definition with_hdrs (s : st) (h : list hname) : st :=
  {| fl := fl s; lend := lend s; hdrs := h; h2 := h2 s; out := out s |}.
Definition emit (s : st) (f : frame) (h : h2s) : st :=
  {| fl := fl s; lend := lend s; hdrs := hdrs s; h2 := h; out := f :: out s |}.

Inductive ctl := Normal | Returned | Raised (e : exn).

Definition X_H2 : exn := XOther 1.            (* StreamClosedError / h2 ProtocolError: h2 refused *)
Definition X_ENV : exn := XOther 2.           (* GRPCError / StreamTerminatedError / OSError from outside *)
Definition X_FUEL : exn := XOther 99.         (* interpreter ran out of fuel: excluded by the theorems *)

(* The environment is adversarial: every environment-dependent decision branches both ways, so the
   semantics is a function to the LIST of all possible results. *)
Fixpoint eval (cx : ctx) (c : cond) (s : st) : list bool :=
  match c with
  | CTrue => [true] | CFalse => [false]
  | CFlag f => [get_flag (fl s) f]
  | CParam P_end => [c_end cx]
  | CLocal L_end_stream => [lend s]
  | CClientStreaming => [c_client_streaming cx]
  | CServerStreaming => [c_server_streaming cx]
  | CStatusOK => [c_status_ok cx]
  | CEnv E_closable => if h2_exists (h2 s) then [false; true] else [false]
  | CEnv _ => [false; true]
  | CNot a => map negb (eval cx a s)
  | CAnd a b => flat_map (fun x : bool => if x then eval cx b s else [false]) (eval cx a s)
  | COr a b => flat_map (fun x : bool => if x then [true] else eval cx b s) (eval cx a s)
  end.

Definition refused (s : st) : st :=
  {| fl := fl s; lend := lend s; hdrs := hdrs s; h2 := h2_refuse (h2 s); out := out s |}.

Definition do_prim (cx : ctx) (p : prim) (s : st) : list (st * ctl) :=
  match p with
  | PConnect => [(s, Normal); (s, Raised X_ENV)]
  | PSendRequest esc =>
      map (fun es : bool =>
             match h2 s with
             | H2Idle => (emit s (FHeaders (hdrs s) es true)
                               (if es then H2Open false true else H2Open true true), Normal)
             | _ => (s, Raised X_H2)
             end) (eval cx esc s)
  | PSendHeaders es =>
      if h2_can_send (h2 s) then
        [(emit s (FHeaders (hdrs s) es (c_status_ok cx))
               (if es then h2_close_local (h2 s) else h2 s), Normal)]
      else [(refused s, Raised X_H2)]
  | PSendData esc =>
      map (fun es : bool =>
             if h2_can_send (h2 s) then
               (emit s (FData es) (if es then h2_close_local (h2 s) else h2 s), Normal)
             else (refused s, Raised X_H2)) (eval cx esc s)
  | PEnd =>
      if h2_can_send (h2 s) then [(emit s FEnd (h2_close_local (h2 s)), Normal)]
      else [(refused s, Raised X_H2)]
  | PReset =>
      if h2_exists (h2 s) then [(emit s FRst H2Closed, Normal)] else [(s, Raised X_H2)]
  | PRecvHeaders | PRecvMessage | PRecvTrailers => [(s, Normal); (s, Raised X_ENV)]
  end.

Fixpoint lookup (o : opname) (t : optable) : option program :=
  match t with
  | [] => None
  | (o', p) :: r =>
      match o, o' with
      | OpSendRequest, OpSendRequest | OpSendMessage, OpSendMessage | OpEnd, OpEnd
      | OpRecvInitialMetadata, OpRecvInitialMetadata | OpRecvMessage, OpRecvMessage
      | OpRecvTrailingMetadata, OpRecvTrailingMetadata | OpCancel, OpCancel
      | OpSendInitialMetadata, OpSendInitialMetadata
      | OpSendTrailingMetadata, OpSendTrailingMetadata => Some p
      | _, _ => lookup o r
      end
  end.

Definition default_args (cx : ctx) : ctx :=
  {| c_client_streaming := c_client_streaming cx; c_server_streaming := c_server_streaming cx;
     c_end := false; c_status_ok := true |}.

Fixpoint exec (fuel : nat) (tbl : optable) (cx : ctx) (p : program) (s : st) : list (st * ctl) :=
  match fuel with
  | O => [(s, Raised X_FUEL)]
  | S f =>
    match p with
    | [] => [(s, Normal)]
    | i :: rest =>
      let rs : list (st * ctl) :=
        match i with
        | SRaise e => [(s, Raised e)]
        | SSetFlag fg b => [(with_fl s (set_flag (fl s) fg b), Normal)]
        | SSetLocal L_end_stream c => map (fun b => (with_lend s b, Normal)) (eval cx c s)
        | SHeadersNew hs => [(with_hdrs s hs, Normal)]
        | SHeadersAdd hs => [(with_hdrs s (hdrs s ++ hs), Normal)]
        | SGuarded body => exec f tbl cx body s
        | SAwaitPrim pr => do_prim cx pr s
        | SAwaitSelf o =>
            match lookup o tbl with
            | None => [(s, Raised X_FUEL)]
            | Some body =>
                map (fun r : st * ctl =>
                       (fst r, match snd r with Returned => Normal | x => x end))
                    (exec f tbl (default_args cx) body s)
            end
        | SAwaitHook _ => [(s, Normal); (s, Raised X_ENV)]      (* a listener may raise *)
        | SEncodeMetadata => [(s, Normal); (s, Raised X_ENV)]   (* invalid user metadata *)
        | SHelper _ => [(s, Normal); (s, Raised X_ENV)]
        | SResetNowait =>
            if h2_exists (h2 s) then [(emit s FRst H2Closed, Normal)] else [(s, Raised X_H2)]
        | SIf c t e => flat_map (fun b : bool => exec f tbl cx (if b then t else e) s) (eval cx c s)
        | SReturn => [(s, Returned)]
        | SOpaque => [(s, Normal)]
        end in
      flat_map (fun r : st * ctl =>
                  match snd r with
                  | Normal => exec f tbl cx rest (fst r)
                  | _ => [r]
                  end) rs
    end
  end.

Definition FUEL : nat := 200.

(* ---- wire monitors ---- *)
Definition has (n : hname) (l : list hname) : bool :=
  existsb (fun x => match n, x with
                    | HN_method, HN_method | HN_scheme, HN_scheme | HN_path, HN_path
                    | HN_authority, HN_authority | HN_grpc_timeout, HN_grpc_timeout | HN_te, HN_te
                    | HN_content_type, HN_content_type | HN_user_agent, HN_user_agent
                    | HN_status, HN_status | HN_grpc_status, HN_grpc_status
                    | HN_grpc_message, HN_grpc_message | HN_status_details, HN_status_details => true
                    | _, _ => false end) l.

(* number of messages, saturating at 2 *)
Inductive cnt := C0 | C1 | C2.
Definition cinc (c : cnt) : cnt := match c with C0 => C1 | _ => C2 end.
Definition cnt_eqb (a b : cnt) : bool :=
  match a, b with C0, C0 | C1, C1 | C2, C2 => true | _, _ => false end.

Inductive mon :=
| M0                                        (* nothing sent yet *)
| MOpen (msgs : cnt)                        (* HEADERS sent, sending side open *)
| MDone (ok : bool) (msgs : cnt)            (* END_STREAM / trailers sent *)
| MCut                                      (* RST_STREAM sent *)
| MBad.                                     (* the frames no longer form a well-formed exchange *)

Definition mon_eqb (a b : mon) : bool :=
  match a, b with
  | M0, M0 | MCut, MCut | MBad, MBad => true
  | MOpen x, MOpen y => cnt_eqb x y
  | MDone o x, MDone o' y => eqb o o' && cnt_eqb x y
  | _, _ => false
  end.

(* Request = HEADERS, messages, END_STREAM; optionally cut short by RST_STREAM, never continued *)
Definition req_step (m : mon) (f : frame) : mon :=
  match m, f with
  | M0, FHeaders ns es _ =>
      if has HN_method ns && has HN_scheme ns && has HN_path ns && has HN_authority ns
         && has HN_te ns && has HN_content_type ns && negb (has HN_status ns)
      then (if es then MDone true C0 else MOpen C0) else MBad
  | MOpen n, FData es => if es then MDone true (cinc n) else MOpen (cinc n)
  | MOpen n, FEnd => MDone true n
  | MOpen _, FRst | MDone _ _, FRst => MCut
  | _, _ => MBad
  end.

(* Response = HEADERS, messages, trailers | trailers-only; optionally cut short by RST_STREAM *)
Definition rsp_step (m : mon) (f : frame) : mon :=
  match m, f with
  | M0, FHeaders ns false _ =>
      if has HN_status ns && has HN_content_type ns && negb (has HN_grpc_status ns)
      then MOpen C0 else MBad
  | M0, FHeaders ns true ok =>                                         (* trailers-only *)
      if has HN_status ns && has HN_content_type ns && has HN_grpc_status ns
      then MDone ok C0 else MBad
  | MOpen n, FHeaders ns true ok =>                                    (* trailers *)
      if has HN_grpc_status ns && negb (has HN_status ns) then MDone ok n else MBad
  | MOpen n, FData false => MOpen (cinc n)
  | M0, FRst | MOpen _, FRst | MDone _ _, FRst => MCut
  | _, _ => MBad
  end.

Definition req_ok (client_streaming : bool) (m : mon) : bool :=
  match m with
  | MBad => false
  | MOpen n => client_streaming || cnt_eqb n C0
  | MDone _ n => client_streaming || cnt_eqb n C1
  | _ => true
  end.

Definition rsp_ok (server_streaming : bool) (m : mon) : bool :=
  match m with
  | MBad => false
  | MOpen n => server_streaming || negb (cnt_eqb n C2)
  | MDone ok n => server_streaming || (if ok then cnt_eqb n C1 else negb (cnt_eqb n C2))
  | _ => true
  end.

(* ---- the global step: one API call (or the peer half-closing), all of one stream ---- *)
Inductive side := Client | Server.

Record gstate := { g_fl : flags; g_h2 : h2s; g_mon : mon;
                   g_viol : bool }.     (* a refusal emitted a frame or changed a flag / fuel ran out *)

Definition gstate_eqb (a b : gstate) : bool :=
  flags_eqb (g_fl a) (g_fl b) && h2s_eqb (g_h2 a) (g_h2 b) && mon_eqb (g_mon a) (g_mon b)
  && eqb (g_viol a) (g_viol b).

Inductive call :=
| Call (o : opname) (arg_end : bool) (arg_status_ok : bool)
| PeerEnds.                              (* the peer half-closes its side (answers fully / ends request) *)

Definition init (sd : side) (remote_open : bool) : gstate :=
  {| g_fl := no_flags; g_h2 := match sd with Client => H2Idle | Server => H2Open true remote_open end;
     g_mon := M0; g_viol := false |}.

Inductive result := ROk | RRefused | RError.   (* per-call observable *)

Definition classify (c : ctl) : result :=
  match c with
  | Normal | Returned => ROk
  | Raised XProtocolError => RRefused
  | Raised _ => RError
  end.

Definition is_fuel (c : ctl) : bool :=
  match c with Raised (XOther 99) => true | _ => false end.

Definition gstep (sd : side) (tbl : optable) (cs ss : bool) (g : gstate) (c : call)
  : list (gstate * result * list frame) :=
  match c with
  | PeerEnds => [({| g_fl := g_fl g; g_h2 := h2_close_remote (g_h2 g); g_mon := g_mon g;
                     g_viol := g_viol g |}, ROk, [])]
  | Call o a_end a_ok =>
      match lookup o tbl with
      | None => [(g, RRefused, [])]                   (* no such operation on this side *)
      | Some body =>
          let cx := {| c_client_streaming := cs; c_server_streaming := ss;
                       c_end := a_end; c_status_ok := a_ok |} in
          let s0 := {| fl := g_fl g; lend := false; hdrs := []; h2 := g_h2 g; out := [] |} in
          map (fun r : st * ctl =>
                 let s1 := fst r in
                 let c := snd r in
                 let frames := rev (out s1) in
                 let m := fold_left (match sd with Client => req_step | Server => rsp_step end)
                                    frames (g_mon g) in
                 let bad_refusal :=
                   match c with
                   | Raised XProtocolError =>
                       negb (match frames with [] => true | _ => false end
                             && flags_eqb (fl s1) (g_fl g))
                   | _ => false
                   end in
                 ({| g_fl := fl s1; g_h2 := h2 s1; g_mon := m;
                     g_viol := g_viol g || bad_refusal || is_fuel c |}, classify c, frames))
              (exec FUEL tbl cx body s0)
      end
  end.

Definition step (sd : side) (tbl : optable) (cs ss : bool) (g : gstate) (c : call) : list gstate :=
  map (fun r => fst (fst r)) (gstep sd tbl cs ss g c).

(* the property of C06 as a predicate on reachable states *)
Definition good (sd : side) (cs ss : bool) (g : gstate) : bool :=
  negb (g_viol g) &&
  match sd with Client => req_ok cs (g_mon g) | Server => rsp_ok ss (g_mon g) end.
