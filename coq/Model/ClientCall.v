(* Model of one client call of grpclib (client.py) against a scripted response.

   Part 1  header interpretation on strings (lists of code points), line by line after
           Stream._raise_for_status / _raise_for_content_type / _process_grpc_status and
           metadata.decode_metadata (imported from Model/Metadata.v).
   Part 2  the finite abstraction: a block of headers is seen by the call only through
           (:status class, content-type class, grpc-status class, decode_metadata class).
   Part 3  the call program: recv_initial_metadata / recv_message / recv_trailing_metadata, the async
           iteration, __aexit__ with _maybe_finish / _maybe_raise, the four __call__ bodies and an
           open() context running explicit steps -- over a response delivered in batches.
   Part 4  concrete scripts, alpha, and the resolution of a symbolic outcome into an observation.
   Part 5  the specification side: the table of the property statement, the recorded defect classes,
           and the enumeration of the bounded abstract domain.
   Executable definitions only; the proofs are in Proofs/C02Proofs.v.

   What the real code rejects / what is outside the model is said where it matters:
     - the request side never blocks (tiny messages, transport never paused): the send phase is atomic;
     - DATA events carry complete gRPC messages (C01 covers fragmentation and truncation);
     - listeners on RecvInitialMetadata / RecvMessage / RecvTrailingMetadata are suspension points only (they
       do not edit metadata, interrupt or raise); no deadline is set, nobody calls cancel();
     - hyper-h2 is abstracted to: first HEADERS = response headers, a later HEADERS = trailers (always
       END_STREAM), END_STREAM closes the stream (the client has already ended its side), RST_STREAM on
       a closed stream is ignored, GOAWAY and connection loss terminate every registered stream and
       close the transport. *)
From Coq Require Import ZArith List Bool.
From GV Require Import Lib.Str Gen.Facts Gen.FactsC02 Model.Base64 Model.Metadata Model.PyInt.
Import ListNotations.
Open Scope Z_scope.

(* ================================================================================================ *)
(** * Part 1: header interpretation on strings *)

Definition hdrs := list (list Z * list Z).

Definition K_STATUS : list Z := [58; 115; 116; 97; 116; 117; 115].   (* ":status" *)
Definition K_CT : list Z := [99; 111; 110; 116; 101; 110; 116; 45; 116; 121; 112; 101].   (* "content-type" *)
Definition K_GS : list Z := [103; 114; 112; 99; 45; 115; 116; 97; 116; 117; 115].   (* "grpc-status" *)
Definition K_GM : list Z := [103; 114; 112; 99; 45; 109; 101; 115; 115; 97; 103; 101].   (* "grpc-message" *)

(* dict(headers).get(k): the LAST pair with that name wins *)
Fixpoint dict_get (k : list Z) (hs : hdrs) : option (list Z) :=
  match hs with
  | [] => None
  | (k', v) :: r =>
      match dict_get k r with
      | Some v' => Some v'
      | None => if zlist_eqb k k' then Some v else None
      end
  end.

(* _raise_for_status: None = passes; Some st = raise GRPCError(st, ...).
   A missing :status is `None != '200'` and `_H2_TO_GRPC_STATUS_MAP.get(None, UNKNOWN)`. *)
Definition http_status_error (hs : hdrs) : option Z :=
  match dict_get K_STATUS hs with
  | Some v =>
      if zlist_eqb v h2_ok then None
      else Some (match assoc_str v h2_to_grpc_status_map with
                 | Some st => st
                 | None => non200_default_status
                 end)
  | None => Some non200_default_status
  end.

(* str.partition('+'): (before, Some after) when a '+' exists, (s, None) otherwise *)
Fixpoint partition_plus (s : list Z) : list Z * option (list Z) :=
  match s with
  | [] => ([], None)
  | c :: r =>
      if c =? 43 then ([], Some r)
      else let '(a, b) := partition_plus r in (c :: a, b)
  end.

Inductive ct_class := CtOk | CtMissing | CtBad.

(* _raise_for_content_type; [csub] = self._codec.__content_subtype__ *)
Definition content_type_class (csub : list Z) (hs : hdrs) : ct_class :=
  match dict_get K_CT hs with
  | None => CtMissing
  | Some v =>
      let '(base, sub) := partition_plus v in
      let sub1 := match sub with
                  | Some (x :: r) => x :: r
                  | _ => proto_content_subtype          (* sub_type or ProtoCodec.__content_subtype__ *)
                  end in
      if zlist_eqb base grpc_content_type && zlist_eqb sub1 csub then CtOk else CtBad
  end.

Definition status_member (k : Z) : bool := existsb (fun m => snd m =? k) status_members.

Inductive gs_val := GsvAbsent | GsvValid (k : Z) | GsvInvalid.

(* _process_grpc_status, first half: headers_map.get('grpc-status'); Status(int(..)) / ValueError *)
Definition grpc_status_of_value (v : list Z) : gs_val :=
  match py_int v with
  | Some k => if status_member k then GsvValid k else GsvInvalid
  | None => GsvInvalid
  end.
Definition grpc_status_val (hs : hdrs) : gs_val :=
  match dict_get K_GS hs with
  | None => GsvAbsent
  | Some v => grpc_status_of_value v
  end.

(* details: [codec] = a status_details_codec is configured; [proto_ok] = the oracle bit "the decoded
   bytes parse as google.rpc.Status" (protobuf is not modelled).  Everything raised inside the try
   (UnicodeEncodeError of .encode('ascii'), binascii.Error, DecodeError) leaves details = None. *)
Inductive details_class := DAbsent | DOk | DUndecodable.
Definition details_of (codec proto_ok : bool) (hs : hdrs) : details_class :=
  if codec then
    match dict_get status_details_key hs with
    | None => DAbsent
    | Some v =>
        if ascii_ok v then
          match decode_bin_value v with
          | Some _ => if proto_ok then DOk else DUndecodable
          | None => DUndecodable
          end
        else DUndecodable
    end
  else DAbsent.

(* ================================================================================================ *)
(** * Part 2: the finite abstraction of a block of headers *)

Inductive st_class := S200 | SNot200.
Inductive gs_class := GsAbsent | GsOk | GsErr | GsInvalid.
Inductive md_class := MdOk | MdBad.     (* decode_metadata(block) returns / raises *)

Record hinfo := { hi_st : st_class; hi_ct : ct_class; hi_gs : gs_class; hi_md : md_class }.
Record tinfo := { ti_gs : gs_class; ti_md : md_class }.

Definition gs_class_of (g : gs_val) : gs_class :=
  match g with
  | GsvAbsent => GsAbsent
  | GsvValid k => if k =? 0 then GsOk else GsErr        (* status is not Status.OK *)
  | GsvInvalid => GsInvalid
  end.
Definition md_class_of (hs : hdrs) : md_class :=
  match decode_metadata hs with Ok _ => MdOk | Err _ => MdBad end.

Definition alpha_h (csub : list Z) (hs : hdrs) : hinfo :=
  {| hi_st := match http_status_error hs with None => S200 | Some _ => SNot200 end;
     hi_ct := content_type_class csub hs;
     hi_gs := gs_class_of (grpc_status_val hs);
     hi_md := md_class_of hs |}.
Definition alpha_t (ts : hdrs) : tinfo :=
  {| ti_gs := gs_class_of (grpc_status_val ts); ti_md := md_class_of ts |}.

(* ================================================================================================ *)
(** * Part 3: the call program over a response delivered in batches *)

Inductive aevent :=
| AH (h : hinfo) (end_stream : bool)      (* first HEADERS frame *)
| AD (end_stream : bool)                  (* DATA carrying one complete message *)
| AT (t : tinfo)                          (* trailers: HEADERS with END_STREAM *)
| ARst                                    (* RST_STREAM, any error code *)
| AGoaway                                 (* GOAWAY, any error code *)
| ALost.                                  (* connection_lost *)

(* when a batch reaches the client: TB only while it is blocked in a receive; TS k (open() variant)
   immediately before explicit step k of the body starts; TL while a listener (RecvInitialMetadata /
   RecvMessage / RecvTrailingMetadata callback registered on the channel) is suspended -- at most one TL
   batch per suspension.  A client blocked in a receive gets the next batch whatever its trigger. *)
Inductive trigger := TB | TS (k : nat) | TL.
(* which events have a listener that really suspends (awaits) before it returns *)
Record listeners := { l_init : bool; l_msg : bool; l_trail : bool }.
Definition no_listeners : listeners := {| l_init := false; l_msg := false; l_trail := false |}.
Definition all_listeners : listeners := {| l_init := true; l_msg := true; l_trail := true |}.
Record batch := { b_trig : trigger; b_events : list aevent }.

Inductive op := RI | RM | IT | RT.     (* recv_initial_metadata, recv_message, async for, recv_trailing_metadata *)
Inductive kind :=
| Call (client_streaming server_streaming : bool)                   (* the four __call__ methods *)
| Open (client_streaming server_streaming : bool) (prog : list op). (* async with m.open(): send; prog *)

Inductive blk := BHdr | BTrl.
Inductive exn :=
| XHttpStatus                (* GRPCError(status mandated for the non-200 :status) *)
| XContentType               (* GRPCError(UNKNOWN): missing / invalid content-type *)
| XBadGrpcStatus (b : blk)   (* GRPCError(UNKNOWN): missing / invalid grpc-status in block b *)
| XServer (b : blk)          (* GRPCError(status, message, details found in block b) *)
| XTerminated                (* StreamTerminatedError *)
| XProtocol                  (* ProtocolError: API misuse *)
| XAssertion                 (* AssertionError: `assert reply is not None` *)
| XMetadata (b : blk).       (* binascii.Error / UnicodeEncodeError out of decode_metadata(block b) *)

Inductive result :=
| ROk (n : nat)              (* success with n replies *)
| RExc (e : exn)
| RHang                      (* blocked for ever: nothing left to deliver *)
| RStuck.                    (* internal inconsistency of the model (never produced; proved) *)

Record state := {
  hdr : option hinfo;        (* protocol.Stream.headers *)
  q : nat;                   (* complete messages in the buffer *)
  eof : bool;                (* Buffer EOF marker queued (END_STREAM seen) *)
  trl : option tinfo;        (* protocol.Stream.trailers *)
  werr : bool;               (* Wrapper._error is set (StreamTerminatedError) *)
  closing : bool;            (* transport.is_closing() *)
  h2closed : bool;           (* the h2 stream is closed: a later RST_STREAM is ignored *)
  ri_done : bool;            (* _recv_initial_metadata_done *)
  rt_done : bool;            (* _recv_trailing_metadata_done *)
  tonly : bool               (* _trailers_only *)
}.

Definition init : state :=
  {| hdr := None; q := 0; eof := false; trl := None; werr := false; closing := false;
     h2closed := false; ri_done := false; rt_done := false; tonly := false |}.

Definition apply_event (s : state) (e : aevent) : state :=
  if closing s then s            (* connection closed: the processors are gone, input is dropped *)
  else match e with
  | AH h e' =>
      {| hdr := Some h; q := q s; eof := eof s || e'; trl := trl s; werr := werr s;
         closing := false; h2closed := h2closed s || e'; ri_done := ri_done s; rt_done := rt_done s;
         tonly := tonly s |}
  | AD e' =>
      {| hdr := hdr s; q := S (q s); eof := eof s || e'; trl := trl s; werr := werr s;
         closing := false; h2closed := h2closed s || e'; ri_done := ri_done s; rt_done := rt_done s;
         tonly := tonly s |}
  | AT t =>
      {| hdr := hdr s; q := q s; eof := true; trl := Some t; werr := werr s;
         closing := false; h2closed := true; ri_done := ri_done s; rt_done := rt_done s;
         tonly := tonly s |}
  | ARst =>
      if h2closed s then s
      else {| hdr := hdr s; q := q s; eof := eof s; trl := trl s; werr := true;
              closing := false; h2closed := true; ri_done := ri_done s; rt_done := rt_done s;
              tonly := tonly s |}
  | AGoaway | ALost =>
      {| hdr := hdr s; q := q s; eof := eof s; trl := trl s; werr := true;
         closing := true; h2closed := h2closed s; ri_done := ri_done s; rt_done := rt_done s;
         tonly := tonly s |}
  end.

Definition apply_batch (b : batch) (s : state) : state := fold_left apply_event (b_events b) s.

Definition set_ri (s : state) : state :=
  {| hdr := hdr s; q := q s; eof := eof s; trl := trl s; werr := werr s; closing := closing s;
     h2closed := h2closed s; ri_done := true; rt_done := rt_done s; tonly := tonly s |}.
Definition set_tonly (s : state) : state :=
  {| hdr := hdr s; q := q s; eof := eof s; trl := trl s; werr := werr s; closing := closing s;
     h2closed := h2closed s; ri_done := ri_done s; rt_done := rt_done s; tonly := true |}.
Definition set_rt (s : state) : state :=
  {| hdr := hdr s; q := q s; eof := eof s; trl := trl s; werr := werr s; closing := closing s;
     h2closed := h2closed s; ri_done := ri_done s; rt_done := true; tonly := tonly s |}.
Definition pop_msg (s : state) : state :=
  {| hdr := hdr s; q := pred (q s); eof := eof s; trl := trl s; werr := werr s; closing := closing s;
     h2closed := h2closed s; ri_done := ri_done s; rt_done := rt_done s; tonly := tonly s |}.

(* ---- blocking inside `with self._wrapper` ---- *)
Inductive waited := WReady (s : state) (bs : list batch) | WTerm (s : state) (bs : list batch) | WHang.

(* the awaited condition is checked first; otherwise the task blocks, the next batch (whatever its
   trigger) arrives, and a cut in it wins over a satisfied condition (Task.cancel -> CancelledError ->
   Wrapper.__exit__ raises the StreamTerminatedError) *)
Fixpoint wait (cond : state -> bool) (s : state) (bs : list batch) : waited :=
  if cond s then WReady s bs
  else match bs with
       | [] => WHang
       | b :: r => let s' := apply_batch b s in
                   if werr s' then WTerm s' r else wait cond s' r
       end.

Definition has_hdr (s : state) : bool := match hdr s with Some _ => true | None => false end.
Definition has_trl (s : state) : bool := match trl s with Some _ => true | None => false end.
Definition data_ready (s : state) : bool := (0 <? Z.of_nat (q s)) || eof s.

(* ---- one step of the body: returns, raises, or never completes ---- *)
Inductive step (A : Type) :=
| Ret (a : A) (s : state) (bs : list batch)
| Raise (e : exn) (s : state) (bs : list batch)
| Hangs
| Stuck.
Arguments Ret {A}. Arguments Raise {A}. Arguments Hangs {A}. Arguments Stuck {A}.

Definition bind {A B} (m : step A) (f : A -> state -> list batch -> step B) : step B :=
  match m with
  | Ret a s bs => f a s bs
  | Raise e s bs => Raise e s bs
  | Hangs => Hangs
  | Stuck => Stuck
  end.

(* `await self._dispatch.<event>(...)` inside `with self._wrapper`: without a listener it completes at
   once; with a suspending listener the task is parked, a pending TL batch (if it is the next one)
   arrives, and a cut in it cancels the task: Wrapper.__exit__ raises the StreamTerminatedError *)
Definition listen_then {A} (on : bool) (s : state) (bs : list batch)
           (k : state -> list batch -> step A) : step A :=
  if on then
    match bs with
    | b :: r =>
        match b_trig b with
        | TL => let s' := apply_batch b s in
                if werr s' then Raise XTerminated s' r else k s' r
        | _ => k s bs
        end
    | [] => k s bs
    end
  else k s bs.

(* Stream.recv_initial_metadata *)
Definition recv_initial (lis : listeners) (s : state) (bs : list batch) : step unit :=
  if ri_done s then Raise XProtocol s bs
  else if werr s then Raise XTerminated s bs                  (* Wrapper.__enter__ *)
  else match wait has_hdr s bs with
       | WHang => Hangs
       | WTerm s' bs' => Raise XTerminated s' bs'
       | WReady s' bs' =>
           match hdr s' with
           | None => Stuck
           | Some h =>
               let s1 := set_ri s' in
               match hi_st h with
               | SNot200 => Raise XHttpStatus s1 bs'                         (* _raise_for_status *)
               | S200 =>
                   match hi_ct h with
                   | CtMissing | CtBad => Raise XContentType s1 bs'          (* _raise_for_content_type *)
                   | CtOk =>
                       match hi_gs h with
                       | GsAbsent =>
                           match hi_md h with                                (* im = decode_metadata(headers) *)
                           | MdBad => Raise (XMetadata BHdr) s1 bs'
                           | MdOk => listen_then (l_init lis) s1 bs' (fun s3 bs3 => Ret tt s3 bs3)
                           end
                       | g =>                                                (* trailers-only response *)
                           (* RecvInitialMetadata is dispatched before the status is looked at *)
                           listen_then (l_init lis) (set_tonly s1) bs' (fun s2 bs2 =>
                           match g with
                           | GsInvalid => Raise (XBadGrpcStatus BHdr) s2 bs2 (* _process_grpc_status *)
                           | _ =>
                               match hi_md h with                            (* tm = decode_metadata(headers) *)
                               | MdBad => Raise (XMetadata BHdr) s2 bs2
                               | MdOk =>                                     (* RecvTrailingMetadata *)
                                   listen_then (l_trail lis) s2 bs2 (fun s3 bs3 =>
                                   match g with
                                   | GsErr => Raise (XServer BHdr) s3 bs3    (* _raise_for_grpc_status *)
                                   | _ => Ret tt s3 bs3
                                   end)
                               end
                           end)
                       end
                   end
               end
           end
       end.

(* Stream.recv_message: true = a message, false = None (end of stream) *)
Definition recv_message (lis : listeners) (s : state) (bs : list batch) : step bool :=
  bind (if ri_done s then Ret tt s bs else recv_initial lis s bs) (fun _ s1 bs1 =>
    if werr s1 then Raise XTerminated s1 bs1
    else match wait data_ready s1 bs1 with
         | WHang => Hangs
         | WTerm s2 bs2 => Raise XTerminated s2 bs2
         | WReady s2 bs2 =>
             if 0 <? Z.of_nat (q s2)
             then listen_then (l_msg lis) (pop_msg s2) bs2 (fun s3 bs3 => Ret true s3 bs3)   (* RecvMessage *)
             else Ret false s2 bs2
         end).

(* Stream.recv_trailing_metadata; the outgoing stream was ended by the send phase of every program.
   protocol.Stream.recv_trailers waits for trailers_received, which TrailersReceived AND the end of the
   stream set; woken without trailers it returns [] and _process_grpc_status({}) raises UNKNOWN. *)
Definition trl_ready (s : state) : bool := has_trl s || eof s.
Definition recv_trailing (lis : listeners) (s : state) (bs : list batch) : step unit :=
  if negb (ri_done s) then Raise XProtocol s bs
  else if rt_done s then Raise XProtocol s bs
  else if tonly s then Ret tt (set_rt s) bs
  else if werr s then Raise XTerminated s bs
  else match wait trl_ready s bs with
       | WHang => Hangs
       | WTerm s' bs' => Raise XTerminated s' bs'
       | WReady s' bs' =>
           let s1 := set_rt s' in
           match trl s' with
           | None => Raise (XBadGrpcStatus BTrl) s1 bs'        (* the stream ended without trailers *)
           | Some t =>
               match ti_gs t with
               | GsAbsent | GsInvalid => Raise (XBadGrpcStatus BTrl) s1 bs'    (* _process_grpc_status *)
               | g =>
                   match ti_md t with                                          (* decode_metadata(trailers) *)
                   | MdBad => Raise (XMetadata BTrl) s1 bs'
                   | MdOk =>                                                   (* RecvTrailingMetadata *)
                       listen_then (l_trail lis) s1 bs' (fun s3 bs3 =>
                       match g with
                       | GsErr => Raise (XServer BTrl) s3 bs3
                       | _ => Ret tt s3 bs3
                       end)
                   end
               end
           end
       end.

(* [message async for message in stream]: recv_message until None; n = messages so far.
   Every round either pops a buffered message or needs a batch, so fuel = messages + batches + 1
   suffices (fuel_of below); running out of fuel is reported as Stuck. *)
Fixpoint iterate (lis : listeners) (fuel : nat) (n : nat) (s : state) (bs : list batch) : step nat :=
  match fuel with
  | O => Stuck
  | S f => bind (recv_message lis s bs) (fun got s1 bs1 =>
             if got then iterate lis f (S n) s1 bs1 else Ret n s1 bs1)
  end.

Definition count_data (bs : list batch) : nat :=
  List.length (filter (fun e => match e with AD _ => true | _ => false end) (flat_map b_events bs)).
Definition fuel_of (bs : list batch) : nat := S (S (count_data bs)).

(* ---- context exit ---- *)
Definition is_terminated (e : exn) : bool := match e with XTerminated => true | _ => false end.

(* Stream._maybe_raise: the exception it raises, if any *)
Definition maybe_raise (s : state) : option exn :=
  match (match hdr s with
         | Some h => match hi_st h with SNot200 => Some XHttpStatus | S200 => None end
         | None => None
         end) with
  | Some e => Some e
  | None =>
      match trl s with
      | Some t =>
          match ti_gs t with
          | GsAbsent | GsInvalid => Some (XBadGrpcStatus BTrl)
          | GsErr => Some (XServer BTrl)
          | GsOk => None
          end
      | None =>
          match hdr s with
          | Some h =>
              match hi_gs h with
              | GsAbsent => None
              | GsInvalid => Some (XBadGrpcStatus BHdr)
              | GsErr => Some (XServer BHdr)
              | GsOk => None
              end
          | None => None
          end
      end
  end.

(* Stream._maybe_finish: `if not self._cancel_done:` (cancel() is never called by these programs) and
   the two implicit receives; on a closing transport they fail at once in Wrapper.__enter__ *)
Definition maybe_finish (lis : listeners) (s : state) (bs : list batch) : step unit :=
  bind (if ri_done s then Ret tt s bs else recv_initial lis s bs) (fun _ s1 bs1 =>
    if rt_done s1 then Ret tt s1 bs1 else recv_trailing lis s1 bs1).

Inductive fin := FinNone | FinExc (e : exn) | FinHang | FinStuck.

Definition upgrade (e : exn) (s : state) : exn :=
  if is_terminated e then match maybe_raise s with Some e' => e' | None => e end else e.

(* Stream.__aexit__(exc): what leaves the `async with` statement *)
Definition aexit (lis : listeners) (exc : option exn) (s : state) (bs : list batch) : fin :=
  match exc with
  | Some e => FinExc (upgrade e s)
  | None =>
      match maybe_finish lis s bs with
      | Ret _ _ _ => FinNone
      | Raise e s' _ => FinExc (upgrade e s')
      | Hangs => FinHang
      | Stuck => FinStuck
      end
  end.

(* ---- the bodies ---- *)
Fixpoint deliver_before (k : nat) (s : state) (bs : list batch) : state * list batch :=
  match bs with
  | b :: r =>
      match b_trig b with
      | TS k' => if Nat.leb k' k then deliver_before k (apply_batch b s) r else (s, bs)
      | TB | TL => (s, bs)
      end
  | [] => (s, [])
  end.

Definition run_op (lis : listeners) (fuel : nat) (o : op) (got : nat) (s : state) (bs : list batch) : step nat :=
  match o with
  | RI => bind (recv_initial lis s bs) (fun _ s1 bs1 => Ret got s1 bs1)
  | RM => bind (recv_message lis s bs) (fun m s1 bs1 => Ret (if m then S got else got) s1 bs1)
  | IT => iterate lis fuel got s bs
  | RT => bind (recv_trailing lis s bs) (fun _ s1 bs1 => Ret got s1 bs1)
  end.

(* explicit steps of an open() body, step k preceded by the inline deliveries due before it *)
Fixpoint run_prog (lis : listeners) (fuel : nat) (k : nat) (ops : list op) (got : nat) (s : state) (bs : list batch)
  : step nat :=
  let '(s0, bs0) := deliver_before k s bs in
  match ops with
  | [] => Ret got s0 bs0
  | o :: r => bind (run_op lis fuel o got s0 bs0) (fun g s1 bs1 => run_prog lis fuel (S k) r g s1 bs1)
  end.

Definition finish {A} (lis : listeners) (body : step A) (ok : A -> result) : result :=
  match body with
  | Ret a s bs =>
      match aexit lis None s bs with
      | FinNone => ok a
      | FinExc e => RExc e
      | FinHang => RHang
      | FinStuck => RStuck
      end
  | Raise e s bs =>
      match aexit lis (Some e) s bs with
      | FinExc e' => RExc e'
      | _ => RStuck
      end
  | Hangs => RHang
  | Stuck => RStuck
  end.

(* The request side completes without suspension and nothing of the response can precede it, so every
   body starts from [init] with the whole script pending.  An open() body may send and end its request in
   any legal way -- end=True on the last message or on send_request, a unary message WITHOUT end=True
   (ended implicitly: _end_done stays False, _send_message_done is True), messages followed by end(), an
   explicit send_request() first -- every one of them satisfies the `outgoing stream was ended` test of
   recv_trailing_metadata, and nothing else on the receive path looks at those flags: the outcome does not
   depend on the way (the driver runs them all against this one model). *)
Definition outcome (lis : listeners) (k : kind) (bs : list batch) : result :=
  match k with
  | Call _ false =>                         (* reply = await stream.recv_message(); assert reply is not None *)
      finish lis (recv_message lis init bs) (fun got => if got then ROk 1 else RExc XAssertion)
  | Call _ true =>                          (* return [message async for message in stream] *)
      finish lis (iterate lis (fuel_of bs) 0 init bs) ROk
  | Open _ _ prog =>
      finish lis (run_prog lis (fuel_of bs) 0 prog 0 init bs) ROk
  end.

(* ================================================================================================ *)
(** * Part 4: concrete scripts, alpha, observations *)

Inductive cevent :=
| CH (hs : hdrs) (proto_ok : bool) (end_stream : bool)
| CD (end_stream : bool)
| CT (ts : hdrs) (proto_ok : bool)
| CRst | CGoaway | CLost.
Record cbatch := { cb_trig : trigger; cb_events : list cevent }.

Definition alpha_event (csub : list Z) (e : cevent) : aevent :=
  match e with
  | CH hs _ e' => AH (alpha_h csub hs) e'
  | CD e' => AD e'
  | CT ts _ => AT (alpha_t ts)
  | CRst => ARst
  | CGoaway => AGoaway
  | CLost => ALost
  end.
Definition alpha (csub : list Z) (bs : list cbatch) : list batch :=
  map (fun b => {| b_trig := cb_trig b; b_events := map (alpha_event csub) (cb_events b) |}) bs.

Fixpoint first_headers (es : list cevent) : option (hdrs * bool) :=
  match es with
  | CH hs p _ :: _ => Some (hs, p)
  | _ :: r => first_headers r
  | [] => None
  end.
Fixpoint first_trailers (es : list cevent) : option (hdrs * bool) :=
  match es with
  | CT ts p :: _ => Some (ts, p)
  | _ :: r => first_trailers r
  | [] => None
  end.

(* message of a GRPCError: made up by the client (text not compared), None, or
   decode_grpc_message(raw) with the raw header value given (C14 covers the decoding itself) *)
Inductive msg_src := MClient | MNone | MHeader (raw : list Z).

Inductive obs :=
| OOk (n : nat)
| OGrpc (status : Z) (m : msg_src) (d : details_class)
| OTerminated | OProtocol | OAssertion | OBinascii | OUnicode | OHang | OInternal.

Definition block_of (b : blk) (es : list cevent) : option (hdrs * bool) :=
  match b with BHdr => first_headers es | BTrl => first_trailers es end.

Definition resolve (codec : bool) (es : list cevent) (r : result) : obs :=
  match r with
  | ROk n => OOk n
  | RHang => OHang
  | RStuck => OInternal
  | RExc e =>
      match e with
      | XTerminated => OTerminated
      | XProtocol => OProtocol
      | XAssertion => OAssertion
      | XHttpStatus =>
          match first_headers es with
          | Some (hs, _) => match http_status_error hs with
                            | Some st => OGrpc st MClient DAbsent
                            | None => OInternal
                            end
          | None => OInternal
          end
      | XContentType =>
          match first_headers es with
          | Some (hs, _) =>
              match dict_get K_CT hs with
              | None => OGrpc (content_type_status) MClient DAbsent
              | Some _ => OGrpc (content_type_status) MClient DAbsent
              end
          | None => OInternal
          end
      | XBadGrpcStatus b =>
          match block_of b es with
          | Some (hs, _) =>
              match dict_get K_GS hs with
              | None => OGrpc (grpc_status_error_status) MClient DAbsent
              | Some _ => OGrpc (grpc_status_error_status) MClient DAbsent
              end
          | None =>
              match b with
              | BTrl => OGrpc (grpc_status_error_status) MClient DAbsent   (* no trailers at all *)
              | BHdr => OInternal
              end
          end
      | XServer b =>
          match block_of b es with
          | Some (hs, p) =>
              match grpc_status_val hs with
              | GsvValid k =>
                  OGrpc k (match dict_get K_GM hs with Some raw => MHeader raw | None => MNone end)
                        (details_of codec p hs)
              | _ => OInternal
              end
          | None => OInternal
          end
      | XMetadata b =>
          match block_of b es with
          | Some (hs, _) =>
              match decode_metadata hs with
              | Err DBinascii => OBinascii
              | Err DUnicode => OUnicode
              | Ok _ => OInternal
              end
          | None => OInternal
          end
      end
  end.

Definition cevents (bs : list cbatch) : list cevent := flat_map cb_events bs.

(* the whole model: what a call of kind k observes on the concrete script bs *)
Definition observe (csub : list Z) (codec : bool) (lis : listeners) (k : kind) (bs : list cbatch) : obs :=
  resolve codec (cevents bs) (outcome lis k (alpha csub bs)).

(* ================================================================================================ *)
(** * Part 5: the specification side *)

Definition events (bs : list batch) : list aevent := flat_map b_events bs.

Fixpoint ev_hdr (es : list aevent) : option hinfo :=
  match es with AH h _ :: _ => Some h | _ :: r => ev_hdr r | [] => None end.
Fixpoint ev_trl (es : list aevent) : option tinfo :=
  match es with AT t :: _ => Some t | _ :: r => ev_trl r | [] => None end.
Definition ev_end (e : aevent) : bool :=
  match e with AH _ e' => e' | AD e' => e' | AT _ => true | _ => false end.
Definition ev_ended (es : list aevent) : bool := existsb ev_end es.
(* a cut that has an effect: GOAWAY / connection loss, or RST_STREAM before END_STREAM (HTTP/2: a reset
   of a stream that both sides have already ended changes nothing) *)
Fixpoint ev_cut (es : list aevent) (ended : bool) : bool :=
  match es with
  | [] => false
  | AGoaway :: _ | ALost :: _ => true
  | ARst :: r => if ended then ev_cut r ended else true
  | e :: r => ev_cut r (ended || ev_end e)
  end.

(* well-formed response script: [H] D* [T] then at most one cut; nothing but a cut after END_STREAM *)
Fixpoint wf_events (es : list aevent) (seen_h ended cut : bool) : bool :=
  match es with
  | [] => true
  | e :: r =>
      negb cut &&
      match e with
      | AH _ e' => negb seen_h && negb ended && wf_events r true e' false
      | AD e' => seen_h && negb ended && wf_events r seen_h e' false
      | AT _ => seen_h && negb ended && wf_events r seen_h true false
      | ARst | AGoaway | ALost => wf_events r seen_h ended true
      end
  end.
Definition wf_script (bs : list batch) : bool := wf_events (events bs) false false false.

Definition acceptable (h : option hinfo) : bool :=
  match h with
  | Some h => match hi_st h, hi_ct h with S200, CtOk => true | _, _ => false end
  | None => false
  end.
Definition h_gs (h : option hinfo) : gs_class := match h with Some h => hi_gs h | None => GsAbsent end.
Definition t_gs (t : option tinfo) : gs_class := match t with Some t => ti_gs t | None => GsAbsent end.
Definition gs_eqb (a b : gs_class) : bool :=
  match a, b with
  | GsAbsent, GsAbsent | GsOk, GsOk | GsErr, GsErr | GsInvalid, GsInvalid => true
  | _, _ => false
  end.

(* THE TABLE OF THE STATEMENT, as a predicate "this outcome is what the statement prescribes for this
   script".  Rows may overlap on a cut response (e.g. non-200 :status and reset): then each applicable
   row is accepted.
     success        only if grpc-status OK was received on an acceptable response;
     server status  GRPCError from block b when that block carries a valid non-OK grpc-status on an
                    acceptable response;
     mandated       non-200 :status;
     UNKNOWN        :status 200 and (content-type missing/invalid, or grpc-status invalid, or grpc-status
                    missing from the trailers / from a response that ended without trailers -- whether or
                    not something cuts the connection after that end);
     termination    the response was cut and no grpc-status arrived at all -- or the one that arrived is
                    OK (a GRPCError cannot carry OK; the statement leaves that cell open);
     hang           never, once the script ends in END_STREAM or a cut;
     anything else  (ProtocolError, AssertionError, binascii.Error, ...) never. *)
Definition spec_allows (bs : list batch) (r : result) : bool :=
  let es := events bs in
  let h := ev_hdr es in
  let t := ev_trl es in
  let ended := ev_ended es in
  let cut := ev_cut es false in
  let acc := acceptable h in
  let h200 := match h with Some h => match hi_st h with S200 => true | _ => false end | None => false end in
  let unknown_row :=
    h200 && (negb acc || gs_eqb (h_gs h) GsInvalid
             || match t with
                | Some t => gs_eqb (ti_gs t) GsAbsent || gs_eqb (ti_gs t) GsInvalid
                | None => ended && gs_eqb (h_gs h) GsAbsent
                end) in
  match r with
  | ROk _ => acc && (gs_eqb (h_gs h) GsOk || gs_eqb (t_gs t) GsOk)
  | RHang => negb (ended || cut)
  | RStuck => false
  | RExc e =>
      match e with
      | XHttpStatus => match h with Some h => match hi_st h with SNot200 => true | _ => false end | None => false end
      | XContentType | XBadGrpcStatus _ => unknown_row       (* GRPCError(UNKNOWN) made by the client *)
      | XServer BHdr => acc && gs_eqb (h_gs h) GsErr
      | XServer BTrl => acc && gs_eqb (t_gs t) GsErr
      | XTerminated =>
          cut && ((gs_eqb (h_gs h) GsAbsent && gs_eqb (t_gs t) GsAbsent)
                  || gs_eqb (h_gs h) GsOk || gs_eqb (t_gs t) GsOk)
      | XProtocol | XAssertion | XMetadata _ => false
      end
  end.

(* ---- the recorded defect classes, as predicates on the INPUT (kind, script) ---- *)
Definition has_bad_md (es : list aevent) : bool :=
  existsb (fun e => match e with
                    | AH h _ => match hi_md h with MdBad => true | _ => false end
                    | AT t => match ti_md t with MdBad => true | _ => false end
                    | _ => false
                    end) es.
(* D2c: a block whose user metadata does not decode (malformed -bin value) *)
Definition d2c (k : kind) (bs : list batch) : bool := has_bad_md (events bs).
(* grpc-status OK received on an acceptable (:status 200, application/grpc[+subtype]) response *)
Definition status_ok_received (bs : list batch) : bool :=
  let es := events bs in
  acceptable (ev_hdr es) && (gs_eqb (h_gs (ev_hdr es)) GsOk || gs_eqb (t_gs (ev_trl es)) GsOk).
(* D2d: a unary-reply __call__ and an OK response without any message *)
Definition d2d (k : kind) (bs : list batch) : bool :=
  match k with Call _ false => Nat.eqb (count_data bs) 0 && status_ok_received bs | _ => false end.
Definition has_trl_ev (es : list aevent) : bool := match ev_trl es with Some _ => true | None => false end.
(* (D2e -- END_STREAM without trailers made the call hang -- was repaired in /repo: no class any more) *)
(* (D2f -- an open() context left after GOAWAY / connection loss exited successfully because
   _maybe_finish was skipped on a closing transport -- was repaired in /repo: no class any more) *)
(* D2g: :status 200, unacceptable content-type, a non-OK grpc-status somewhere, and a cut: the
   content-type is not looked at on the _maybe_raise path *)
Definition d2g (k : kind) (bs : list batch) : bool :=
  let es := events bs in
  match ev_hdr es with
  | Some h =>
      match hi_st h, hi_ct h with
      | S200, CtOk => false
      | S200, _ => ev_cut es false && (gs_eqb (hi_gs h) GsErr || gs_eqb (t_gs (ev_trl es)) GsErr)
      | _, _ => false
      end
  | None => false
  end.
Definition defect (k : kind) (bs : list batch) : bool :=
  d2c k bs || d2d k bs || d2g k bs.

(* ---- enumeration of the bounded abstract domain ---- *)
Definition all_st : list st_class := [S200; SNot200].
Definition all_ct : list ct_class := [CtOk; CtMissing; CtBad].
Definition all_gs : list gs_class := [GsAbsent; GsOk; GsErr; GsInvalid].
Definition all_md : list md_class := [MdOk; MdBad].
Definition all_hinfo : list hinfo :=
  flat_map (fun a => flat_map (fun b => flat_map (fun c => map (fun d =>
    {| hi_st := a; hi_ct := b; hi_gs := c; hi_md := d |}) all_md) all_gs) all_ct) all_st.
Definition all_tinfo : list tinfo :=
  flat_map (fun c => map (fun d => {| ti_gs := c; ti_md := d |}) all_md) all_gs.

(* response layouts without the cut: nothing | H | H(END) | H D^k | H D^k(END) | H D^k T, k <= maxd *)
Fixpoint datas (k : nat) (last_end : bool) : list aevent :=
  match k with
  | O => []
  | S O => [AD last_end]
  | S k' => AD false :: datas k' last_end
  end.
Definition layouts_h (maxd : nat) (h : hinfo) : list (list aevent) :=
  [[AH h false]; [AH h true]]
  ++ flat_map (fun k => [AH h false :: datas (S k) false; AH h false :: datas (S k) true]) (seq 0 maxd)
  ++ flat_map (fun k => map (fun t => AH h false :: datas k false ++ [AT t]) all_tinfo) (seq 0 (S maxd)).
Definition all_layouts (maxd : nat) : list (list aevent) :=
  [] :: flat_map (layouts_h maxd) all_hinfo.

Definition all_cuts : list (list aevent) := [[]; [ARst]; [AGoaway]; [ALost]].

(* timings of a layout es followed by the cut events c: the last j events of es travel in the batch of
   the cut (trigger tr), the first |es|-j events before it, blocked-triggered, either in one batch or
   one batch per event.  Without a cut the same splits describe a response arriving in two parts. *)
Definition mk_batches (sep : bool) (pre : list aevent) (tr : trigger) (last : list aevent) : list batch :=
  (if sep then map (fun e => {| b_trig := TB; b_events := [e] |}) pre
   else match pre with [] => [] | _ => [{| b_trig := TB; b_events := pre |}] end)
  ++ match last with [] => [] | _ => [{| b_trig := tr; b_events := last |}] end.
Definition timings (trs : list trigger) (es c : list aevent) : list (list batch) :=
  flat_map (fun j =>
    let pre := firstn (List.length es - j) es in
    let last := skipn (List.length es - j) es ++ c in
    flat_map (fun tr => [mk_batches false pre tr last; mk_batches true pre tr last]) trs)
  (seq 0 (S (List.length es))).

Definition all_scripts (maxd : nat) (trs : list trigger) : list (list batch) :=
  flat_map (fun es => flat_map (fun c => timings trs es c) all_cuts) (all_layouts maxd).

Definition call_kinds : list kind :=
  [Call false false; Call false true; Call true false; Call true true].
(* bodies of the open() variant (after the request was sent with end=True) *)
Definition open_progs : list (list op) :=
  [[]; [RM]; [IT]; [RI]; [RI; RT]; [RI; RM; RT]; [RI; IT; RT]; [RM; RM]].
Definition step_triggers (n : nat) : list trigger := TB :: map TS (seq 0 (S n)).
(* the cardinality of an open() kind only selects how the request is sent (send_message(end=True) /
   send_request(end=True)), which is atomic here: [outcome] does not look at it (open_cardinality_irrelevant
   in Proofs/C02Proofs.v), so one representative per body is enumerated *)
Definition open_kinds : list kind := map (fun p => Open false false p) open_progs.

Definition prog_of (k : kind) : list op := match k with Open _ _ p => p | Call _ _ => [] end.
(* a configuration of the enumeration: listeners, kind, bound on the number of messages.
   Without listeners a TL batch behaves like a TB batch, so TL is enumerated only with listeners. *)
Definition config := (listeners * kind * nat)%type.
Definition triggers_of (c : config) : list trigger :=
  let '(lis, k, _) := c in
  (match k with Call _ _ => [TB] | Open _ _ p => step_triggers (List.length p) end)
  ++ (if l_init lis || l_msg lis || l_trail lis then [TL] else []).
Definition cases_of (c : config) : list (list batch) :=
  let '(_, _, maxd) := c in all_scripts maxd (triggers_of c).
Definition configs : list config :=
  map (fun k => (no_listeners, k, 2%nat)) (call_kinds ++ open_kinds)
  ++ map (fun k => (all_listeners, k, 1%nat)) (call_kinds ++ open_kinds).
