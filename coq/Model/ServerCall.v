(* Model of one server-side call of grpclib (server.py: request_handler, _abort, Stream.send_initial_metadata /
   send_message / send_trailing_metadata / cancel / __aexit__; utils.py: Wrapper / DeadlineWrapper as used by
   request_handler; protocol.py: Stream.send_headers / send_data / reset / reset_nowait / closable on top of the
   four h2 stream states; metadata.py: Deadline.from_headers, decode_metadata).

   Executable definitions only.  Strings are lists of code points.  The validation prefix of request_handler
   is the INTERPRETATION of Gen.FactsC03.abort_table (guards, order, status codes, messages are the source's);
   the status constants of __aexit__ and of the TimeoutError clause come from Gen.FactsC03 as well.

   What is abstracted (see notes/C03.md): the user handler is a program over the alphabet below; every error an
   API call raises is caught by the handler and the program goes on (a handler that lets it escape is the
   program cut at that point ending in RaiseException); cancellation reaches the handler only where it is
   suspended: Sleep, a Recv that has to wait, the final Wait, and -- once the program paused the transport
   (Pause: pause_writing) -- the `await write_ready.wait()` every sending call starts its wire work with.
   Otherwise the sending calls never suspend (flow-control windows are open).  The environment resumes
   writing when the handler coroutine has ended. *)
From Coq Require Import ZArith List Bool.
From GV Require Import Lib.Str Gen.Facts Gen.FactsC03 Model.Base64 Model.Metadata.
Import ListNotations.
Open Scope Z_scope.

(* ------------------------------------------------------------------------------------------------ *)
(** * Requests: header lists as HTTP/2 delivers them (validation off) *)

Definition header := (list Z * list Z)%type.

(* dict(headers).get(k): the LAST occurrence wins *)
Fixpoint hget (k : list Z) (hs : list header) : option (list Z) :=
  match hs with
  | [] => None
  | (k', v) :: r =>
      match hget k r with
      | Some x => Some x
      | None => if zlist_eqb k k' then Some v else None
      end
  end.

(* str.partition('+') : (before, after); after = [] when there is no '+' *)
Fixpoint partition_plus (s : list Z) : list Z * list Z :=
  match s with
  | [] => ([], [])
  | c :: r => if c =? 43 then ([], r) else let '(a, b) := partition_plus r in (c :: a, b)
  end.

(* `cs` = codec.__content_subtype__ of the server's codec ('proto' for ProtoCodec; any other codec has its own) *)

(* not (base != GRPC_CONTENT_TYPE or (sub or 'proto') != codec.__content_subtype__) *)
Definition content_type_ok (cs : list Z) (v : list Z) : bool :=
  let '(base, sub) := partition_plus v in
  let sub' := match sub with [] => proto_subtype | _ => sub end in
  zlist_eqb base grpc_content_type && zlist_eqb sub' cs.

(* _TIMEOUT_RE = ^([0-9]{1,8})([HMSmun])\Z ; the unit letters are the keys of Facts.units *)
Definition is_digit (c : Z) : bool := in_range 48 57 c.
Definition is_unit (c : Z) : bool := existsb (fun u => fst u =? c) units.

(* Some true  = matches and int(digits) = 0 ;  Some false = matches, positive ;  None = ValueError *)
Definition decode_timeout_zero (v : list Z) : option bool :=
  match rev v with
  | [] => None
  | u :: rd =>
      if is_unit u && forallb is_digit rd && (1 <=? Z.of_nat (length rd)) && (Z.of_nat (length rd) <=? 8)
      then Some (forallb (fun c => c =? 48) rd) else None
  end.

Definition grpc_timeout_key : list Z := [103; 114; 112; 99; 45; 116; 105; 109; 101; 111; 117; 116].

Inductive tclass :=
| TNone          (* no grpc-timeout header: Deadline.from_headers returns None *)
| TInvalid       (* some grpc-timeout header does not match: ValueError *)
| TExpired       (* min over the headers is 0: nothing remains on arrival *)
| TValid.        (* a positive timeout *)

(* Deadline.from_headers: min(map(decode_timeout, every grpc-timeout header), default=None) *)
Fixpoint timeout_class (hs : list header) : tclass :=
  match hs with
  | [] => TNone
  | (k, v) :: r =>
      if zlist_eqb k grpc_timeout_key then
        match decode_timeout_zero v with
        | None => TInvalid
        | Some z =>
            match timeout_class r with
            | TInvalid => TInvalid
            | TExpired => TExpired
            | TNone | TValid => if z then TExpired else TValid
            end
        end
      else timeout_class r
  end.

Definition metadata_ok (hs : list header) : bool :=
  match decode_metadata hs with Ok _ => true | Err _ => false end.

Definition k_path : list Z := [58; 112; 97; 116; 104].          (* ":path" *)
Definition k_deadline_from_headers : list Z :=
  [68; 101; 97; 100; 108; 105; 110; 101; 46; 102; 114; 111; 109; 95; 104; 101; 97; 100; 101; 114; 115].
Definition k_decode_metadata : list Z :=
  [100; 101; 99; 111; 100; 101; 95; 109; 101; 116; 97; 100; 97; 116; 97].

(* does the guard of an early abort fire?  `known` = the keys of the server's mapping *)
Definition guard_fires (cs : list Z) (known : list (list Z)) (hs : list header) (g : rguard) : bool :=
  match g with
  | GetNe k v => match hget k hs with Some x => negb (zlist_eqb x v) | None => true end
  | IsNone k => match hget k hs with Some _ => false | None => true end
  | CtMismatch =>
      match hget [99; 111; 110; 116; 101; 110; 116; 45; 116; 121; 112; 101] hs with
      | Some v => negb (content_type_ok cs v)
      | None => true       (* unreachable behind the IsNone guard; None.partition would be an AttributeError *)
      end
  | UnknownPath => match hget k_path hs with Some p => negb (mem_str p known) | None => true end
  | TryValueError f =>
      if zlist_eqb f k_deadline_from_headers then
        match timeout_class hs with TInvalid => true | _ => false end
      else if zlist_eqb f k_decode_metadata then negb (metadata_ok hs)
      else true           (* a callee this model does not know: fail closed *)
  end.

Definition abort_entry := (rguard * Z * option Z * option (list Z))%type.

(* the first guard that fires decides *)
Fixpoint first_abort (cs : list Z) (known : list (list Z)) (hs : list header) (tbl : list abort_entry) (i : nat)
  : option (nat * abort_entry) :=
  match tbl with
  | [] => None
  | e :: r => if guard_fires cs known hs (fst (fst (fst e))) then Some (i, e)
              else first_abort cs known hs r (S i)
  end.

Inductive verdict :=
| VAbort (i : nat) (h2status : Z) (gstatus : option Z) (gmsg : option (list Z))
| VAccept (t : tclass).

Definition validate (cs : list Z) (known : list (list Z)) (hs : list header) : verdict :=
  match first_abort cs known hs abort_table 0 with
  | Some (i, (_, h, gs, m)) => VAbort i h gs m
  | None => VAccept (timeout_class hs)
  end.

(* ------------------------------------------------------------------------------------------------ *)
(** * Frames of the response as they appear on the stream *)

Inductive frame :=
| FHeaders (status : Z) (ctype : bool) (gstatus : option Z) (gmsg : option (list Z)) (end_stream : bool)
| FData
| FTrailers (gstatus : Z) (gmsg : option (list Z))     (* a HEADERS frame after the response HEADERS; END_STREAM *)
| FRst.

(* ------------------------------------------------------------------------------------------------ *)
(** * The four h2 stream states as seen by the server's H2Connection *)

Inductive h2s :=
| HOpen          (* request HEADERS received, the client has not ended its side *)
| HRemote        (* half-closed (remote): END_STREAM received *)
| HLocal         (* half-closed (local): we sent END_STREAM, the client did not *)
| HClosed.       (* closed (both ended / RST either way / h2 closed it after an invalid send) *)

Definition closable (h : h2s) : bool := match h with HClosed => false | _ => true end.

(* protocol.Stream.send_headers / send_data without END_STREAM:  Some h' = sent,  None = raises;
   h2 moves a half-closed(local) stream to CLOSED when the send is refused *)
Definition h2_send (h : h2s) : option h2s * h2s :=
  match h with
  | HOpen => (Some HOpen, HOpen)
  | HRemote => (Some HRemote, HRemote)
  | HLocal => (None, HClosed)
  | HClosed => (None, HClosed)
  end.
(* send_headers(end_stream=True) *)
Definition h2_send_end (h : h2s) : bool * h2s :=
  match h with
  | HOpen => (true, HLocal)
  | HRemote => (true, HClosed)
  | HLocal => (false, HClosed)
  | HClosed => (false, HClosed)
  end.
(* reset_stream: RST_STREAM goes out unless the stream is closed already (StreamClosedError) *)
Definition h2_reset (h : h2s) : bool * h2s :=
  match h with
  | HClosed => (false, HClosed)
  | _ => (true, HClosed)
  end.

(* ------------------------------------------------------------------------------------------------ *)
(** * server.Stream: the four flags, the API calls, __aexit__ *)

Inductive card := UU | US | SU | SS.
Definition server_streaming (c : card) : bool := match c with US | SS => true | _ => false end.

Record sstate := mkS {
  init_done : bool;       (* _send_initial_metadata_done *)
  msg_done : bool;        (* _send_message_done *)
  trail_done : bool;      (* _send_trailing_metadata_done *)
  cancel_done : bool;     (* _cancel_done *)
  hst : h2s;
  recvd : nat;            (* messages the handler has consumed *)
  sleeps : nat;           (* Sleep ops executed *)
  fired : bool;           (* the environment's event has been delivered (or was void) *)
  paused : bool           (* pause_writing was called: write_ready is clear *)
}.

Definition set_init (s : sstate) (b : bool) := mkS b (msg_done s) (trail_done s) (cancel_done s) (hst s) (recvd s) (sleeps s) (fired s) (paused s).
Definition set_msg (s : sstate) (b : bool) := mkS (init_done s) b (trail_done s) (cancel_done s) (hst s) (recvd s) (sleeps s) (fired s) (paused s).
Definition set_trail (s : sstate) (b : bool) := mkS (init_done s) (msg_done s) b (cancel_done s) (hst s) (recvd s) (sleeps s) (fired s) (paused s).
Definition set_cancel (s : sstate) (b : bool) := mkS (init_done s) (msg_done s) (trail_done s) b (hst s) (recvd s) (sleeps s) (fired s) (paused s).
Definition set_hst (s : sstate) (h : h2s) := mkS (init_done s) (msg_done s) (trail_done s) (cancel_done s) h (recvd s) (sleeps s) (fired s) (paused s).
Definition set_recvd (s : sstate) (n : nat) := mkS (init_done s) (msg_done s) (trail_done s) (cancel_done s) (hst s) n (sleeps s) (fired s) (paused s).
Definition set_sleeps (s : sstate) (n : nat) := mkS (init_done s) (msg_done s) (trail_done s) (cancel_done s) (hst s) (recvd s) n (fired s) (paused s).
Definition set_fired (s : sstate) (b : bool) := mkS (init_done s) (msg_done s) (trail_done s) (cancel_done s) (hst s) (recvd s) (sleeps s) b (paused s).
Definition set_paused (s : sstate) (b : bool) := mkS (init_done s) (msg_done s) (trail_done s) (cancel_done s) (hst s) (recvd s) (sleeps s) (fired s) b.

Inductive opres :=
| ROk
| RRefused        (* grpclib.exceptions.ProtocolError from a precondition check: nothing emitted, no flag changed *)
| RH2Err          (* h2.exceptions.ProtocolError / StreamClosedError out of send_headers / send_data / reset *)
| RMsg | REof     (* recv_message returned a message / None *)
| RAssert         (* recv_message: AssertionError('Received less data than expected') *)
| RError          (* the call failed part-way: encode_metadata / the codec / a listener raised *)
| RCancelled.     (* CancelledError delivered at this await *)

(* the response HEADERS: (':status','200'), ('content-type', GRPC_CONTENT_TYPE + '+' + subtype) *)
Definition resp_headers : frame := FHeaders 200 true None None false.

Definition send_initial (s : sstate) : sstate * list frame * opres :=
  if init_done s then (s, [], RRefused)
  else match h2_send (hst s) with
       | (Some h', _) => (set_init (set_hst s h') true, [resp_headers], ROk)
       | (None, h') => (set_hst s h', [], RH2Err)
       end.

Definition send_message (c : card) (s : sstate) : sstate * list frame * opres :=
  let '(s1, out1, r1) := if init_done s then (s, [], ROk) else send_initial s in
  match r1 with
  | ROk =>
      if negb (server_streaming c) && msg_done s1 then (s1, out1, RRefused)
      else match h2_send (hst s1) with
           | (Some h', _) => (set_msg (set_hst s1 h') true, out1 ++ [FData], ROk)
           | (None, h') => (set_hst s1 h', out1, RH2Err)
           end
  | r => (s1, out1, r)
  end.

Definition send_trailing (c : card) (s : sstate) (st : Z) (m : option (list Z)) : sstate * list frame * opres :=
  if trail_done s then (s, [], RRefused)
  else if negb (server_streaming c) && negb (msg_done s) && (st =? status_ok) then (s, [], RRefused)
  else
    let f := if init_done s then FTrailers st m else FHeaders 200 true (Some st) m true in
    match h2_send_end (hst s) with
    | (true, h') =>
        let s1 := set_trail (set_hst s h') true in
        if negb (st =? status_ok) && closable h' then (set_hst s1 HClosed, [f; FRst], ROk)   (* reset_nowait *)
        else (s1, [f], ROk)
    | (false, h') => (set_hst s h', [], RH2Err)
    end.

Definition cancel (s : sstate) : sstate * list frame * opres :=
  if cancel_done s then (s, [], RRefused)
  else match h2_reset (hst s) with
       | (true, h') => (set_cancel (set_hst s h') true, [FRst], ROk)
       | (false, h') => (set_hst s h', [], RH2Err)
       end.

(* The calls as the handler makes them.  `fails` = the call is given something that makes it raise part-way
   (invalid user metadata: encode_metadata's ValueError; a message the codec refuses; a listener that raises);
   the failure point is after the precondition checks (and, for send_message, after the implicit
   send_initial_metadata) and before the wire work.  The wire work starts with `await write_ready.wait()`:
   PWait when the transport is paused. *)
Inductive phase := PDone (s : sstate) (out : list frame) (r : opres) | PWait.

Definition do_send_initial (s : sstate) (fails : bool) : phase :=
  if init_done s then PDone s [] RRefused
  else if fails then PDone s [] RError
  else if paused s then PWait
  else let '(s1, out, r) := send_initial s in PDone s1 out r.

Definition do_send_message (c : card) (s : sstate) (fails : bool) : phase :=
  if paused s then
    if negb (init_done s) then PWait                 (* the implicit send_initial_metadata waits *)
    else if negb (server_streaming c) && msg_done s then PDone s [] RRefused
    else if fails then PDone s [] RError
    else PWait
  else if fails then
    let '(s1, out1, r1) := if init_done s then (s, [], ROk) else send_initial s in
    match r1 with
    | ROk => if negb (server_streaming c) && msg_done s1 then PDone s1 out1 RRefused else PDone s1 out1 RError
    | r => PDone s1 out1 r
    end
  else let '(s1, out, r) := send_message c s in PDone s1 out r.

Definition trailing_refused (c : card) (s : sstate) (st : Z) : bool :=
  trail_done s || (negb (server_streaming c) && negb (msg_done s) && (st =? status_ok)).

Definition do_send_trailing (c : card) (s : sstate) (st : Z) (m : option (list Z)) (fails : bool) : phase :=
  if trailing_refused c s st then PDone s [] RRefused
  else if fails then PDone s [] RError
  else if paused s then PWait
  else let '(s1, out, r) := send_trailing c s st m in PDone s1 out r.

Definition do_cancel (s : sstate) : phase :=
  if cancel_done s then PDone s [] RRefused
  else if paused s then PWait
  else let '(s1, out, r) := cancel s in PDone s1 out r.

(* what Stream.__aexit__ is given *)
Inductive exn :=
| EGRPC (st : Z) (m : option (list Z))     (* GRPCError(status, message) *)
| EExc                                       (* any other Exception (incl. StreamTerminatedError, ProtocolError) *)
| EBase.                                     (* a BaseException that is not an Exception (CancelledError, ...) *)

Definition aexit (c : card) (s : sstate) (e : option exn) : sstate * list frame :=
  if trail_done s || cancel_done s then (s, [])
  else
    let go st m := let '(s', out, _) := send_trailing c s st m in (s', out) in   (* StreamClosedError: pass *)
    match e with
    | Some (EGRPC st m) =>
        (* isinstance(exc_val, GRPCError) and not (status is OK and unary reply and no message sent);
           otherwise the error is an Exception like any other *)
        if aexit_grpc_ok_unary_as_exception && (st =? status_ok) && negb (server_streaming c) && negb (msg_done s)
        then go (fst aexit_exception) (snd aexit_exception)
        else go st m
    | Some EExc => go (fst aexit_exception) (snd aexit_exception)
    | Some EBase => (s, [])                   (* `return None`: propagated, nothing is sent *)
    | None =>
        if negb (server_streaming c) && negb (msg_done s)
        then go (fst aexit_unary_missing) (snd aexit_unary_missing)
        else go (fst aexit_normal) (snd aexit_normal)
    end.

(* _abort: HEADERS(:status [, grpc-status [, grpc-message]]) END_STREAM, then RST_STREAM when closable *)
Definition abort (h : h2s) (h2status : Z) (gs : option Z) (m : option (list Z)) : list frame :=
  match h2_send_end h with
  | (true, h') => FHeaders h2status false gs m true :: (if closable h' then [FRst] else [])
  | (false, _) => []
  end.

(* ------------------------------------------------------------------------------------------------ *)
(** * Handler programs and the environment *)

Inductive op :=
| Recv
| SendInitial (fails : bool)
| SendMessage (fails : bool)
| SendTrailing (st : Z) (m : option (list Z)) (fails : bool)
| Cancel | Sleep
| Pause.                  (* the transport's buffer fills up here: pause_writing *)

(* the Exception subclasses request_handler has clauses for, raised by the handler ITSELF *)
Inductive exck :=
| XPlain                  (* RuntimeError, ... *)
| XTimeout                (* asyncio.TimeoutError: an inner wait_for, a socket / database timeout *)
| XStreamTerminated       (* StreamTerminatedError, e.g. out of a client call the handler made *)
| XProtocol.              (* grpclib.exceptions.ProtocolError *)

Inductive fin0 := Return | RaiseGRPC (st : Z) (m : option (list Z)) | RaiseException (k : exck) | RaiseBase.
Inductive fin := Fin (f : fin0) | Wait.                 (* Wait: stay suspended until cancelled *)
Inductive policy := Honour | Swallow (f : fin0).        (* what the handler does with CancelledError *)

Record prog := mkP { p_ops : list op; p_fin : fin; p_policy : policy }.

Inductive extk := ENone | EReset | EClose.               (* client RST_STREAM / Server.close() *)

Record env := mkE {
  e_card : card;
  e_msgs : nat;           (* complete request messages delivered before the handler starts *)
  e_partial : bool;       (* followed by a truncated message *)
  e_eof : bool;           (* END_STREAM received (with HEADERS, with the last DATA, or on an empty DATA) *)
  e_ext : extk;
  e_ext_at : option nat;  (* the event (or, for ENone, the deadline) arrives during this Sleep; otherwise when
                             the handler waits *)
  e_codec : list Z;       (* codec.__content_subtype__ of the server's codec *)
  e_paused0 : bool        (* the transport is paused already when the request arrives (resumed by the environment
                             once the handler coroutine has ended, or at once when it is never called) *)
}.

Inductive cause := CReset | CClose | CDeadline.

(* recv_message on the buffered request body *)
Inductive recv_out := RvMsg | RvEof | RvAssert | RvBlock.
Definition recv_outcome (e : env) (n : nat) : recv_out :=
  if Nat.ltb n (e_msgs e) then RvMsg
  else if e_partial e then (if e_eof e then RvAssert else RvBlock)
  else if e_eof e then RvEof else RvBlock.

(* the handler is suspended at an await; which cancellation reaches it?
   at_wait = it waits for ever (a Recv without data, the final Wait) rather than for 1/64 s.
   Returns the new state and Some cause (cancelled) or None (nothing happens: a short sleep completes,
   an endless wait hangs). *)
Definition deliver (t : tclass) (e : env) (s : sstate) (at_wait : bool) : sstate * option cause :=
  let due := at_wait || match e_ext_at e with Some k => Nat.eqb k (sleeps s) | None => false end in
  let deadline := match t with TValid => true | _ => false end in
  if negb due then (s, None)
  else
    match e_ext e with
    | ENone => if deadline then (set_fired s true, Some CDeadline) else (s, None)
    | EReset =>
        if fired s then (if at_wait && deadline then (s, Some CDeadline) else (s, None))
        else if closable (hst s) then (set_hst (set_fired s true) HClosed, Some CReset)
        else (* the client cannot reset a stream that is closed already: void *)
          if at_wait && deadline then (set_fired s true, Some CDeadline) else (set_fired s true, None)
    | EClose =>
        if fired s then (if at_wait && deadline then (s, Some CDeadline) else (s, None))
        else (set_fired s true, Some CClose)
    end.

Inductive stop :=
| Finished                 (* all ops done *)
| Interrupted (c : cause)  (* CancelledError thrown into the handler at an await *)
| Stuck.                   (* the handler waits for ever and nothing will wake it *)

(* the ops of the program, each wrapped in try/except Exception *)
Fixpoint run_ops (t : tclass) (e : env) (s : sstate) (ops : list op)
  : sstate * list frame * list opres * stop :=
  match ops with
  | [] => (s, [], [], Finished)
  | o :: r =>
      let continue s1 out1 r1 :=
        let '(s2, out2, rs, st) := run_ops t e s1 r in (s2, out1 ++ out2, r1 :: rs, st) in
      let sending ph :=
        match ph with
        | PDone s1 out1 r1 => continue s1 out1 r1
        | PWait =>                        (* suspended in `await write_ready.wait()` *)
            match deliver t e s true with
            | (s1, Some c) => (s1, [], [RCancelled], Interrupted c)
            | (s1, None) => (s1, [], [], Stuck)
            end
        end in
      match o with
      | SendInitial f => sending (do_send_initial s f)
      | SendMessage f => sending (do_send_message (e_card e) s f)
      | SendTrailing st m f => sending (do_send_trailing (e_card e) s st m f)
      | Cancel => sending (do_cancel s)
      | Pause => continue (set_paused s true) [] ROk
      | Recv =>
          match recv_outcome e (recvd s) with
          | RvMsg => continue (set_recvd s (S (recvd s))) [] RMsg
          | RvEof => continue s [] REof
          | RvAssert => continue s [] RAssert
          | RvBlock =>
              match deliver t e s true with
              | (s1, Some c) => (s1, [], [RCancelled], Interrupted c)
              | (s1, None) => (s1, [], [], Stuck)
              end
          end
      | Sleep =>
          match deliver t e s false with
          | (s1, Some c) => (set_sleeps s1 (S (sleeps s1)), [], [RCancelled], Interrupted c)
          | (s1, None) => continue (set_sleeps s1 (S (sleeps s1))) [] ROk
          end
      end
  end.

(* what is in flight when the handler body is left *)
Inductive inflight := INone | IGRPC (st : Z) (m : option (list Z)) | IExc (k : exck) | IBase | ICancelled.

Definition inflight_of_fin0 (f : fin0) : inflight :=
  match f with
  | Return => INone
  | RaiseGRPC st m => IGRPC st m
  | RaiseException k => IExc k
  | RaiseBase => IBase
  end.

(* Wrapper._error after wrapper.cancel(error): StreamTerminatedError for a reset (__terminated__), TimeoutError
   for the deadline; Server.close() only cancels the task and does not touch the wrapper *)
Definition wrapper_error (c : option cause) : option exck :=
  match c with
  | Some CReset => Some XStreamTerminated
  | Some CDeadline => Some XTimeout
  | Some CClose | None => None
  end.

(* Wrapper.__exit__: when _error is set, cancel_failed := exc_type is not CancelledError, raise _error *)
Definition wrapper_exit (w : option exck) (i : inflight) : inflight * bool :=
  match w with
  | Some k => (IExc k, match i with ICancelled => false | _ => true end)
  | None => (i, false)
  end.

(* the except clauses of request_handler; cancelled = wrapper.cancelled, cancel_failed = wrapper.cancel_failed *)
Definition except_clauses (cancelled cancel_failed : bool) (i : inflight) : option exn :=
  match i with
  | INone => None
  | IGRPC st m => Some (EGRPC st m)
  | IExc XTimeout =>
      if cancel_failed then Some (EGRPC deadline_status_failed None)
      else if cancelled then Some (EGRPC deadline_status_cancelled None)
      else Some EExc                      (* 'Timeout occurred': the handler's own timeout, re-raised *)
  | IExc _ => Some EExc                   (* incl. StreamTerminatedError (re-raised, or the assert fails) *)
  | IBase | ICancelled => Some EBase
  end.

(* how the handler coroutine itself ended (what a log line in the handler would say) *)
Inductive endkind :=
| KNotRun                              (* the request was refused, or its deadline had expired on arrival *)
| KFin (f : fin0)                      (* returned / raised on its own *)
| KCancelled (c : cause)               (* CancelledError propagated (honoured) *)
| KSwallowed (c : cause) (f : fin0)    (* CancelledError caught, then returned / raised *)
| KHang.                               (* still suspended; nothing will wake it *)

(* the exception that leaves `with deadline_wrapper, wrapper:` and the except clauses of request_handler,
   i.e. what Stream.__aexit__ receives.  Wrapper.__exit__ replaces whatever is in flight by the wrapper's
   error when it was cancelled (StreamTerminatedError for a reset, TimeoutError for the deadline; Server.close
   does not touch the wrapper); the TimeoutError clause turns both the honoured and the failed cancellation
   into GRPCError(DEADLINE_EXCEEDED). *)
Definition leaves_with (k : endkind) : option cause * inflight :=
  match k with
  | KNotRun | KHang => (None, INone)
  | KFin f => (None, inflight_of_fin0 f)
  | KCancelled c => (Some c, ICancelled)
  | KSwallowed c f => (Some c, inflight_of_fin0 f)
  end.

Definition exit_exn (k : endkind) : option exn :=
  let '(c, i) := leaves_with k in
  let w := wrapper_error c in
  let '(i', cancel_failed) := wrapper_exit w i in
  except_clauses (match w with Some _ => true | None => false end) cancel_failed i'.

Definition after_cancel (p : policy) (c : cause) : endkind :=
  match p with Honour => KCancelled c | Swallow f => KSwallowed c f end.

Definition init_state (e : env) : sstate :=
  mkS false false false false (if e_eof e then HRemote else HOpen) 0 0 false (e_paused0 e).

(* the handler coroutine: ops, then fin; a cancellation ends the ops *)
Definition run_handler (t : tclass) (e : env) (p : prog)
  : sstate * list frame * list opres * endkind :=
  let '(s1, out, rs, st) := run_ops t e (init_state e) (p_ops p) in
  match st with
  | Interrupted c => (s1, out, rs, after_cancel (p_policy p) c)
  | Stuck => (s1, out, rs, KHang)
  | Finished =>
      match p_fin p with
      | Fin f => (s1, out, rs, KFin f)
      | Wait =>
          match deliver t e s1 true with
          | (s2, Some c) => (s2, out, rs, after_cancel (p_policy p) c)
          | (s2, None) => (s2, out, rs, KHang)
          end
      end
  end.

Record result := mkR {
  r_verdict : verdict;
  r_out : list frame;
  r_results : list opres;
  r_end : endkind;
  r_pre : sstate;         (* when the handler coroutine ended (before __aexit__) *)
  r_state : sstate        (* at `finally` *)
}.

(* request_handler from the first statement to `finally` *)
Definition run_call (known : list (list Z)) (hs : list header) (e : env) (p : prog) : result :=
  let s0 := init_state e in
  match validate (e_codec e) known hs with
  | VAbort i h gs m => mkR (VAbort i h gs m) (abort (hst s0) h gs m) [] KNotRun s0 s0
  | VAccept TExpired =>
      (* DeadlineWrapper.start marks the wrapper cancelled and raises TimeoutError before the handler is
         called: GRPCError(DEADLINE_EXCEEDED) reaches __aexit__ with no flag set *)
      let '(s1, out) := aexit (e_card e) s0 (Some (EGRPC deadline_status_cancelled None)) in
      mkR (VAccept TExpired) out [] KNotRun s0 s1
  | VAccept t =>
      let '(s1, out, rs, k) := run_handler t e p in
      match k with
      | KHang => mkR (VAccept t) out rs KHang s1 s1
      | _ => let '(s2, out2) := aexit (e_card e) s1 (exit_exn k) in
             mkR (VAccept t) (out ++ out2) rs k s1 s2
      end
  end.

(* ------------------------------------------------------------------------------------------------ *)
(** * The wire monitor (specification side) *)

Inductive mon :=
| M0         (* nothing sent *)
| MH         (* HEADERS(:status 200, content-type) sent; DATA may follow *)
| MT         (* the terminal HEADERS (trailers / trailers-only / abort) sent; one RST_STREAM may follow *)
| MR         (* RST_STREAM sent: nothing may follow *)
| MBad.

(* a HEADERS frame with END_STREAM that may open (and end) a response:
   trailers-only = :status 200 + content-type + grpc-status;  abort = an HTTP error status, or 200 with a
   non-OK grpc-status (the form _abort produces: no content-type) *)
Definition terminal_headers_ok (st : Z) (ct : bool) (gs : option Z) : bool :=
  if st =? 200 then
    match gs with
    | Some g => ct || negb (g =? status_ok)
    | None => false
    end
  else true.

Definition mon_step (m : mon) (f : frame) : mon :=
  match m, f with
  | M0, FHeaders st ct gs _ false => if (st =? 200) && ct && match gs with None => true | _ => false end then MH else MBad
  | M0, FHeaders st ct gs _ true => if terminal_headers_ok st ct gs then MT else MBad
  | M0, FRst => MR
  | MH, FData => MH
  | MH, FTrailers _ _ => MT
  | MH, FRst => MR
  | MT, FRst => MR
  | _, _ => MBad
  end.

Definition mon_run (m : mon) (out : list frame) : mon := fold_left mon_step out m.

Definition mon_safe (m : mon) : bool := match m with MBad => false | _ => true end.
Definition mon_done (m : mon) : bool := match m with MT | MR => true | _ => false end.

(* accepted: (HEADERS DATA* )? (TRAILERS RST? | RST)  |  HEADERS+END_STREAM RST? *)
Definition accepted (out : list frame) : bool := mon_done (mon_run M0 out).
(* a prefix of an accepted word: HEADERS before DATA, at most one terminal, nothing after it *)
Definition well_formed (out : list frame) : bool := mon_safe (mon_run M0 out).

(* the grpc-status the response carries (the terminal HEADERS), if any *)
Fixpoint final_status (out : list frame) : option (Z * option (list Z)) :=
  match out with
  | [] => None
  | FHeaders _ _ (Some g) m true :: _ => Some (g, m)
  | FTrailers g m :: _ => Some (g, m)
  | _ :: r => final_status r
  end.

Fixpoint count_data (out : list frame) : nat :=
  match out with
  | [] => 0
  | FData :: r => S (count_data r)
  | _ :: r => count_data r
  end.

(* ------------------------------------------------------------------------------------------------ *)
(** * Rendering for the correspondence check: the header lists as they are built in server.py *)

Definition dec_digit (d : Z) : Z := 48 + d.
Fixpoint dec_fuel (fuel : nat) (n : Z) (acc : list Z) : list Z :=
  match fuel with
  | O => acc
  | S f => if n <? 10 then dec_digit n :: acc else dec_fuel f (n / 10) (dec_digit (n mod 10) :: acc)
  end.
Definition dec (n : Z) : list Z := dec_fuel 20 n [].          (* str(int) for 0 <= n < 10^20 *)

Definition k_status : list Z := [58; 115; 116; 97; 116; 117; 115].
Definition k_ctype : list Z := [99; 111; 110; 116; 101; 110; 116; 45; 116; 121; 112; 101].
Definition k_gstatus : list Z := [103; 114; 112; 99; 45; 115; 116; 97; 116; 117; 115].
Definition k_gmsg : list Z := [103; 114; 112; 99; 45; 109; 101; 115; 115; 97; 103; 101].
Definition content_type_value (cs : list Z) : list Z := grpc_content_type ++ [43] ++ cs.

Definition render_tail (gs : option Z) (m : option (list Z)) : list header :=
  match gs with Some g => [(k_gstatus, dec g)] | None => [] end ++
  match m with Some x => [(k_gmsg, x)] | None => [] end.

(* None for frames that are not HEADERS *)
Definition render (cs : list Z) (f : frame) : option (list header * bool) :=
  match f with
  | FHeaders st ct gs m e =>
      Some ((k_status, dec st) :: (if ct then [(k_ctype, content_type_value cs)] else []) ++ render_tail gs m, e)
  | FTrailers g m => Some (render_tail (Some g) m, true)
  | _ => None
  end.
