(* driver for the C15 model: one case per line.  Floats travel as the hexadecimal of their 64 IEEE
   bits (Python struct.pack('>d')), ints as hexadecimal, strings as code-point lists.
   enc f <bits-hex>                 -> ok <cps> | err value | err overflow
   enc i <int-hex>                  -> ok <cps> | err value | err overflow
   dec <cps>                        -> ok i <int-hex> q <num-hex> <den-hex>
                                     | ok f <bits-hex> q <num-hex> <den-hex> | err value | err overflow
   hdr <now-bits-hex> <n> (<name-cps> <value-cps>)*
                                    -> none | ok <bits-hex> | err value | err overflow
   pow <k>                          -> <bits-hex>        (the float 10 ** -k)
   unitchars                        -> <cps>
*)
let show_err = function ValueError -> "err value" | OverflowError -> "err overflow"

let rec pairs = function
  | k :: v :: r -> (cps_of_string k, cps_of_string v) :: pairs r
  | [] -> []
  | _ -> failwith "odd number of words"

let show_q s = match wire_q s with
  | Some (n, d) -> " q " ^ hex_of_z n ^ " " ^ hex_of_z d
  | None -> " q none"

let handle = function
  | ["enc"; kind; h] ->
    let t = if kind = "f" then PyFloat (b64_of_bits (z_of_hex h)) else PyInt (z_of_hex h) in
    (match encode_timeout t with
     | Ok s -> "ok " ^ string_of_cps s
     | Err e -> show_err e)
  | ["dec"; s] ->
    let s = cps_of_string s in
    (match decode_timeout s with
     | Ok (PyInt z) -> "ok i " ^ hex_of_z z ^ show_q s
     | Ok (PyFloat f) -> "ok f " ^ hex_of_z (bits_of_b64 f) ^ show_q s
     | Err e -> show_err e)
  | "hdr" :: now :: _ :: rest ->
    (match from_headers (b64_of_bits (z_of_hex now)) (pairs rest) with
     | Ok None -> "none"
     | Ok (Some d) -> "ok " ^ hex_of_z (bits_of_b64 d)
     | Err e -> show_err e)
  | ["pow"; k] -> hex_of_z (bits_of_b64 (pow10neg_float (z_of_int (int_of_string k))))
  | ["unitchars"] -> string_of_cps unit_chars
  | _ -> failwith "unknown command"

let () = main_loop handle
