(* driver for the C12 model: one data_received call per line
   B S <state> X <batch>
     state = role closed tclosed hflag ntasks (sid live cancelled)* drecv succ fail waiter ping
             nreg (sid wrapper ckind ccode headers trailers hev tev wev queue eof drecv)*
             role: 0 client 1 server; ckind: 0 none 1 protocol-error 2 remote-reset(ccode)
             3 goaway(ccode) 4 connection-lost 5 connection-closed 6 other
     batch = P                      (h2 raised ProtocolError)
           | U                      (h2 raised UnicodeDecodeError: undecodable header block)
           | E <n> (kind a b c)*    kind = index of the h2 event class (see kind_of below);
                                    kind 17 (other class): a = class name as code points
   answer: <inv_b> <wf> ok <state> C <n> (sid size)* R <n> sid* D <1|0|->
         | <inv_b> <wf> raises <exception>
     C = connection.ack calls made by the batch; R = h2.reset_stream calls made by it; D = shut_down holds of the result (only when the
     batch closed a live processor) *)

let toks : string list ref = ref []
let next () = match !toks with
  | t :: r -> toks := r; t
  | [] -> failwith "unexpected end of line"
let next_int () = int_of_string (next ())
let next_z () = z_of_int (next_int ())
let next_bool () = next_int () <> 0
let expect w = let t = next () in if t <> w then failwith ("expected " ^ w ^ " got " ^ t)

let rec times n f = if n <= 0 then [] else let x = f () in x :: times (n - 1) f

let reason_of kind code = match kind with
  | 0 -> None | 1 -> Some RProtocolError | 2 -> Some (RRemoteReset code) | 3 -> Some (RGoaway code)
  | 4 -> Some RConnLost | 5 -> Some RConnClosed | 6 -> Some ROther
  | _ -> failwith "reason kind"
let show_reason = function
  | None -> "0 0" | Some RProtocolError -> "1 0"
  | Some (RRemoteReset c) -> "2 " ^ string_of_int (int_of_z c)
  | Some (RGoaway c) -> "3 " ^ string_of_int (int_of_z c)
  | Some RConnLost -> "4 0" | Some RConnClosed -> "5 0" | Some ROther -> "6 0"

let parse_state () =
  let role = if next_int () = 0 then Client else Server in
  let closed = next_bool () in
  let tclosed = next_bool () in
  let hflag = next_bool () in
  let nt = next_int () in
  let tasks = times nt (fun () ->
    let sid = next_z () in let live = next_bool () in let c = next_bool () in
    { t_sid = sid; t_live = live; t_cancelled = c }) in
  let drecv = next_z () in let succ = next_z () in let fail = next_z () in
  let waiter = next_bool () in let ping = next_bool () in
  let nr = next_int () in
  let reg = times nr (fun () ->
    let sid = next_z () in let w = next_bool () in
    let ck = next_int () in let cc = next_z () in
    let h = next_bool () in let t = next_bool () in let hev = next_bool () in
    let tev = next_bool () in let wev = next_bool () in let q = next_z () in
    let eof = next_bool () in let d = next_z () in
    (sid, { s_wrapper = w; s_cancel = reason_of ck cc; s_headers = h; s_trailers = t; s_hev = hev;
            s_tev = tev; s_wev = wev; s_queue = q; s_eof = eof; s_drecv = d })) in
  { st_role = role; st_closed = closed; st_tclosed = tclosed;
    st_h = { h_flag = hflag; h_tasks = tasks }; st_reg = reg; st_drecv = drecv; st_succ = succ;
    st_fail = fail; st_waiter = waiter; st_ping = ping; st_credit = []; st_rst = [] }

let b2s b = if b then "1" else "0"
let z2s z = string_of_int (int_of_z z)

let show_state s =
  let tasks = List.concat_map (fun t ->
    [z2s t.t_sid; b2s t.t_live; b2s t.t_cancelled]) s.st_h.h_tasks in
  let reg = List.concat_map (fun (sid, r) ->
    [z2s sid; b2s r.s_wrapper; show_reason r.s_cancel; b2s r.s_headers; b2s r.s_trailers;
     b2s r.s_hev; b2s r.s_tev; b2s r.s_wev; z2s r.s_queue; b2s r.s_eof; z2s r.s_drecv]) s.st_reg in
  String.concat " " (
    [(match s.st_role with Client -> "0" | Server -> "1"); b2s s.st_closed; b2s s.st_tclosed;
     b2s s.st_h.h_flag; string_of_int (List.length s.st_h.h_tasks)] @ tasks @
    [z2s s.st_drecv; z2s s.st_succ; z2s s.st_fail; b2s s.st_waiter; b2s s.st_ping;
     string_of_int (List.length s.st_reg)] @ reg)

(* kind index = position in h2_classes of harness/drive_C12.py *)
let parse_event () =
  let kind = next_int () in
  if kind = 17 then begin
    let cls = cps_of_string (next ()) in
    let _ = next () in let _ = next () in OtherEvent cls
  end else begin
    let a = next_z () in let b = next_z () in let c = next_z () in
    let nz x = int_of_z x <> 0 in
    match kind with
    | 0 -> RequestReceived a
    | 1 -> ResponseReceived a
    | 2 -> TrailersReceived a
    | 3 -> InformationalResponseReceived a
    | 4 -> DataReceived (a, b, c)
    | 5 -> WindowUpdated (a, b)
    | 6 -> StreamEnded a
    | 7 -> StreamReset (a, b, nz c)
    | 8 -> RemoteSettingsChanged (nz a, nz b)
    | 9 -> SettingsAcknowledged
    | 10 -> PingReceived
    | 11 -> PingAckReceived
    | 12 -> PriorityUpdated a
    | 13 -> PushedStreamReceived (a, b)
    | 14 -> ConnectionTerminated a
    | 15 -> AlternativeServiceAvailable
    | 16 -> UnknownFrameReceived (a, b)
    | _ -> failwith "event kind"
  end

let parse_batch () =
  match next () with
  | "P" -> H2ProtocolError
  | "U" -> H2UnicodeDecodeError
  | "E" -> let n = next_int () in H2Events (times n parse_event)
  | t -> failwith ("batch " ^ t)

let exn_name = function
  | EH2ProtocolError -> "ProtocolError" | EH2StreamClosed -> "StreamClosedError"
  | EAttributeError -> "AttributeError" | EValueError -> "ValueError"
  | EUnknownHandler -> "UnknownHandler"

let handle ws =
  toks := ws;
  expect "B";
  expect "S";
  let s = parse_state () in
  expect "X";
  let b = parse_batch () in
  let evs = (match b with H2Events l -> l | _ -> []) in
  let head = String.concat " " [b2s (inv_b s); b2s (List.for_all event_wf evs)] in
  match data_received s b with
  | Raises x -> head ^ " raises " ^ exn_name x
  | Ok s' ->
    let credit = List.concat_map (fun (sid, n) -> [z2s sid; z2s n]) s'.st_credit in
    let d =
      if s.st_closed || not s'.st_closed then "-"
      else
        let cands = RProtocolError ::
          List.concat_map (function ConnectionTerminated c -> [RGoaway c] | _ -> []) evs in
        b2s (List.exists (fun why -> shut_down why s') cands) in
    String.concat " " ([head; "ok"; show_state s'; "C"; string_of_int (List.length s'.st_credit)]
                       @ credit @ ["R"; string_of_int (List.length s'.st_rst)]
                       @ List.map z2s s'.st_rst @ ["D"; d])

let () = main_loop handle
