(* driver for the C03 model: one case per line
   run <known-path-cps> <card> <msgs> <partial> <eof> <ext> <ext_at|-1> <paused0> <codec-subtype-cps> <policy> <fin> <nops> <op>* <nh> (<k-cps> <v-cps>)*
       card   = UU|US|SU|SS          ext = none|reset|close
       fin0   = ret | grpc:<code>:<msg> | exc | timeout | streamterm | protocol | base       msg = <cps> | ~ (None)
       fin    = <fin0> | wait        policy = H | S/<fin0>
       op     = R | I | M | C | S | P | T:<code>:<msg> | I! | M! | T!:<code>:<msg>     (! = fails part-way)
   answer: <verdict>|<frames>|<results>|<end>|<accepted><well_formed>|<final status>
       verdict = abort:<i> | accept:<none|invalid|expired|valid>
       frames  = H:<end>:<k>/<v>;... | T:<end>:<k>/<v>;... | D | R      (space separated)
   ct <codec-cps> <cps>  -> 0|1     (content_type_ok)
*)
let split_on c s = String.split_on_char c s
let opt_msg w = if w = "~" then None else Some (cps_of_string w)
let show_opt_msg = function None -> "~" | Some m -> string_of_cps m

let parse_fin0 w =
  match split_on ':' w with
  | ["ret"] -> Return
  | ["exc"] -> RaiseException XPlain
  | ["timeout"] -> RaiseException XTimeout
  | ["streamterm"] -> RaiseException XStreamTerminated
  | ["protocol"] -> RaiseException XProtocol
  | ["base"] -> RaiseBase
  | ["grpc"; c; m] -> RaiseGRPC (z_of_int (int_of_string c), opt_msg m)
  | _ -> failwith ("fin0 " ^ w)
let parse_fin w = if w = "wait" then Wait else Fin (parse_fin0 w)
let parse_policy w =
  if w = "H" then Honour
  else if String.length w > 2 && String.sub w 0 2 = "S/" then Swallow (parse_fin0 (String.sub w 2 (String.length w - 2)))
  else failwith ("policy " ^ w)
let parse_op w =
  match split_on ':' w with
  | ["R"] -> Recv | ["I"] -> SendInitial false | ["M"] -> SendMessage false | ["C"] -> Cancel | ["S"] -> Sleep
  | ["I!"] -> SendInitial true | ["M!"] -> SendMessage true | ["P"] -> Pause
  | ["T"; c; m] -> SendTrailing (z_of_int (int_of_string c), opt_msg m, false)
  | ["T!"; c; m] -> SendTrailing (z_of_int (int_of_string c), opt_msg m, true)
  | _ -> failwith ("op " ^ w)
let parse_card = function "UU" -> UU | "US" -> US | "SU" -> SU | "SS" -> SS | w -> failwith ("card " ^ w)
let parse_ext = function "none" -> ENone | "reset" -> EReset | "close" -> EClose | w -> failwith ("ext " ^ w)

let rec take n l = if n = 0 then ([], l) else match l with x :: r -> let (a, b) = take (n - 1) r in (x :: a, b) | [] -> failwith "short line"
let rec pairs = function k :: v :: r -> (cps_of_string k, cps_of_string v) :: pairs r | [] -> [] | _ -> failwith "odd headers"

let show_headers hs = String.concat ";" (List.map (fun (k, v) -> string_of_cps k ^ "/" ^ string_of_cps v) hs)
let show_frame cs f =
  match f with
  | FData -> "D"
  | FRst -> "R"
  | FHeaders _ -> (match render cs f with Some (hs, e) -> "H:" ^ word_of_bool e ^ ":" ^ show_headers hs | None -> "?")
  | FTrailers _ -> (match render cs f with Some (hs, e) -> "T:" ^ word_of_bool e ^ ":" ^ show_headers hs | None -> "?")
let show_res = function ROk -> "ok" | RRefused -> "refused" | RH2Err -> "h2err" | RMsg -> "msg" | REof -> "eof"
                      | RAssert -> "assert" | RCancelled -> "cancelled" | RError -> "error"
let show_cause = function CReset -> "reset" | CClose -> "close" | CDeadline -> "deadline"
let show_fin0 = function Return -> "ret" | RaiseGRPC _ -> "grpc" | RaiseBase -> "base"
  | RaiseException XPlain -> "exc" | RaiseException XTimeout -> "timeout"
  | RaiseException XStreamTerminated -> "streamterm" | RaiseException XProtocol -> "protocol"
let show_end = function
  | KNotRun -> "notrun" | KHang -> "hang"
  | KFin f -> "fin:" ^ show_fin0 f
  | KCancelled c -> "cancelled:" ^ show_cause c
  | KSwallowed (c, f) -> "swallow:" ^ show_cause c ^ ":" ^ show_fin0 f
let show_tclass = function TNone -> "none" | TInvalid -> "invalid" | TExpired -> "expired" | TValid -> "valid"
let show_verdict = function
  | VAbort (i, _, _, _) -> "abort:" ^ string_of_int (int_of_nat i)
  | VAccept t -> "accept:" ^ show_tclass t

let handle = function
  | "run" :: known :: card :: msgs :: partial :: eof :: ext :: ext_at :: paused0 :: codec :: policy :: fin :: nops :: rest ->
    let (ops, rest) = take (int_of_string nops) rest in
    let (_, hs) = take 1 rest in
    let e = { e_card = parse_card card; e_msgs = nat_of_int (int_of_string msgs);
              e_partial = bool_of_word partial; e_eof = bool_of_word eof; e_ext = parse_ext ext;
              e_ext_at = (let k = int_of_string ext_at in if k < 0 then None else Some (nat_of_int k));
              e_codec = cps_of_string codec; e_paused0 = bool_of_word paused0 } in
    let cs = cps_of_string codec in
    let p = { p_ops = List.map parse_op ops; p_fin = parse_fin fin; p_policy = parse_policy policy } in
    let r = run_call [cps_of_string known] (pairs hs) e p in
    let fs = (match final_status r.r_out with
              | None -> "-" | Some (g, m) -> string_of_int (int_of_z g) ^ ":" ^ show_opt_msg m) in
    String.concat "|" [ show_verdict r.r_verdict;
                        String.concat " " (List.map (show_frame cs) r.r_out);
                        String.concat " " (List.map show_res r.r_results);
                        show_end r.r_end;
                        word_of_bool (accepted r.r_out) ^ word_of_bool (well_formed r.r_out);
                        fs ]
  | ["ct"; c; v] -> word_of_bool (content_type_ok (cps_of_string c) (cps_of_string v))
  | _ -> failwith "unknown command"

let () = main_loop handle
