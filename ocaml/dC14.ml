(* driver for the C14 model: one case per line
   enc <cps>                                   -> ok <cps> | err            (encode_grpc_message)
   dec <cps>                                   -> <cps>                     (decode_grpc_message)
   u8e <cps>                                   -> ok <hex> | err            (str.encode utf-8 strict)
   u8d <hex>                                   -> <cps>                     (bytes.decode utf-8 replace)
   unq <hex>                                   -> <hex>                     (_unquote_impl)
   wesc <cps>                                  -> 0|1                       (well_escaped)
   int <cps>                                   -> ok <dec> | err
   str <dec>                                   -> <cps>
   tr <codec> <st> <msg> <det>                 -> ok <n> (<key-cps> <val-cps>)* | err
        msg = n | s:<cps>      det = n | b:<hex>
   st <codec> <n> (<key-cps> <val-cps>)*       -> status <st> <msg> <det> | missing | invalid | unmodelled
   rcv <codec> <n> (<key-hex> <val-hex>)*      -> connerr | (as st)
*)
let tail2 w = let r = String.sub w 2 (String.length w - 2) in if r = "" then "-" else r
let parse_msg w = if w = "n" then None else Some (cps_of_string (tail2 w))
let parse_det w = if w = "n" then None else Some (bytes_of_hex (tail2 w))
let show_msg = function None -> "n" | Some s -> "s:" ^ string_of_cps s
let show_det = function None -> "n" | Some b -> "b:" ^ hex_of_bytes b

let rec pairs f = function
  | k :: v :: r -> (f k, f v) :: pairs f r
  | [] -> []
  | _ -> failwith "odd number of words"

let show_status = function
  | CStatus (st, m, d) -> String.concat " " ["status"; string_of_int (int_of_z st); show_msg m; show_det d]
  | CMissing -> "missing"
  | CInvalid -> "invalid"
  | CUnmodelled -> "unmodelled"

let handle = function
  | ["enc"; s] -> (match encode_grpc_message (cps_of_string s) with
      | Some e -> "ok " ^ string_of_cps e | None -> "err")
  | ["dec"; s] -> string_of_cps (decode_grpc_message (cps_of_string s))
  | ["u8e"; s] -> (match utf8_encode (cps_of_string s) with
      | Some b -> "ok " ^ hex_of_bytes b | None -> "err")
  | ["u8d"; h] -> string_of_cps (utf8_decode_replace (bytes_of_hex h))
  | ["unq"; h] -> hex_of_bytes (unquote_impl (bytes_of_hex h))
  | ["wesc"; s] -> word_of_bool (well_escaped (cps_of_string s))
  | ["int"; s] -> (match py_int (cps_of_string s) with
      | Some z -> "ok " ^ (let h = hex_of_z z in h) | None -> "err")
  | ["str"; d] -> string_of_cps (decimal (z_of_int (int_of_string d)))
  | ["tr"; c; st; m; d] ->
    (match status_trailers (bool_of_word c) (z_of_int (int_of_string st)) (parse_msg m) (parse_det d) with
     | Some hs -> String.concat " " ("ok" :: string_of_int (List.length hs) ::
                                     List.concat_map (fun (k, v) -> [string_of_cps k; string_of_cps v]) hs)
     | None -> "err")
  | "st" :: c :: _ :: rest -> show_status (process_grpc_status (bool_of_word c) (pairs cps_of_string rest))
  | "rcv" :: c :: _ :: rest ->
    (match client_receive (bool_of_word c) (pairs bytes_of_hex rest) with
     | RConnError -> "connerr"
     | RStatus s -> show_status s)
  | _ -> failwith "unknown command"

let () = main_loop handle
