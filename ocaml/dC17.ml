(* driver for the C17 model (Model/Keepalive.v): one case per line

   <enabled> <time> <timeout> <permit> <maxp> <minint> <t0> <event>*
       times in ticks of 2^-20 s (decimal), flags 0|1
       event = T:<t>:<incl>:<close_first> | A | D | H | O | C | L | R (Connection.ack)
   answer: one word per event   <items>|<pcount>,<opens>,<ping_timer>,<close_timer>,<last_ping>,<closed>
       items = '-' or comma separated  P@t (PING sent)  S@t (ping timer fired, ping suppressed)
               X@t (close timer closed the connection); inputs are not echoed
       timers / last_ping: ticks or '-'
   validate <time|timeout|permit|maxp|minint> <none|bool:0|bool:1|int:n|float:ticks>   -> 0|1
       (what Configuration.__post_init__ accepts, from the generated field table)
   defaults   -> server:<time|->,<timeout>,<permit>,<maxp>,<minint> client:... test:... *)
let parse_ev w =
  match String.split_on_char ':' w with
  | ["T"; t; i; c] -> Tick (z_of_int (int_of_string t), bool_of_word i, bool_of_word c)
  | ["A"] -> Ack | ["D"] -> DataSent | ["H"] -> HeadersSent
  | ["O"] -> StreamOpened | ["C"] -> StreamClosed | ["L"] -> Lost | ["R"] -> Acked
  | _ -> failwith ("event " ^ w)

let show_opt = function None -> "-" | Some z -> string_of_int (int_of_z z)

let show_item (t, i) =
  match i with
  | IPing -> Some ("P@" ^ string_of_int (int_of_z t))
  | ISkip -> Some ("S@" ^ string_of_int (int_of_z t))
  | IClose -> Some ("X@" ^ string_of_int (int_of_z t))
  | _ -> None

let show_step (o, s) =
  let items = List.filter_map show_item o in
  (if items = [] then "-" else String.concat "," items) ^ "|" ^
  String.concat "," [string_of_int (int_of_z s.pcount); string_of_int (int_of_z s.opens);
                     show_opt s.ping_timer; show_opt s.close_timer; show_opt s.last_ping;
                     word_of_bool s.closed]

let field_name = function
  | "time" -> n_time | "timeout" -> n_timeout | "permit" -> n_permit | "maxp" -> n_maxp
  | "minint" -> n_minint | w -> failwith ("field " ^ w)

let parse_pyv w =
  match String.split_on_char ':' w with
  | ["none"] -> PNone
  | ["bool"; b] -> PBool (bool_of_word b)
  | ["int"; n] -> PNum (false, z_of_int (int_of_string n))
  | ["float"; n] -> PNum (true, z_of_int (int_of_string n))
  | _ -> failwith ("value " ^ w)

let show_default name r =
  match default_cfg r with
  | None -> name ^ ":?"
  | Some c ->
    name ^ ":" ^ String.concat "," [
      (if c.k_enabled then string_of_int (int_of_z c.k_time) else "-");
      string_of_int (int_of_z c.k_timeout); word_of_bool c.k_permit;
      string_of_int (int_of_z c.k_maxp); string_of_int (int_of_z c.k_minint)]

let handle = function
  | ["validate"; f; v] -> word_of_bool (field_accepts (field_name f) (parse_pyv v))
  | ["defaults"] ->
    String.concat " " [show_default "server" RServer; show_default "client" RClient;
                       show_default "test" RTest]
  | en :: tm :: tmo :: pm :: mx :: mi :: t0 :: evs ->
    let zi w = z_of_int (int_of_string w) in
    let c = { k_enabled = bool_of_word en; k_time = zi tm; k_timeout = zi tmo;
              k_permit = bool_of_word pm; k_maxp = zi mx; k_minint = zi mi } in
    let tr = trace c (init c (zi t0)) (List.map parse_ev evs) in
    if tr = [] then "-" else String.concat " " (List.map show_step tr)
  | _ -> failwith "case"

let () = main_loop handle
