(* driver for the C19 model: one case per line, one answer per line

   agg <c>*                                   -> <resp code>        c: status codes 1/0/2
   init <cfg>                                 -> registry as name=ids;...   (Health.__init__)
   check <cfg> <vals> <name>                  -> status <n> | resp <n>
        cfg  = none | - (empty mapping) | name=i,i;name=;...   (name 0 = OVERALL)
        vals = string of status codes, e.g. 102 ("-" = no checks)
   watch <cfg> <vals> <cmd>*                  -> <snapshot>|<snapshot>|... = <k>:<sent codes>;...
        cmd  = s:i:v (set) | w:name:slow (create_task Watch) | i:n (n loop iterations) | q (settle)
             | r:k (release blocked send) | l:k:b (slow switch) | c:k (cancel)
        snapshot (after every cmd) = <k>.<pc>.<number of messages sent>,...
   reset <vals> <slot>*                       -> <ev'><renewed>...   slot = <ev><wait>, wait in -NBKDC
   sc <ttl> <tmo> <horizon> S <d:r>* E <ev>*  -> value, _last_check, latch, callers, log, notifications
        r in TFNBR; ev = t:call | t:call:<cancel_at> | t:cancel:<k>
   poll <j|l|q>*                              -> per q: events,poll_task set,live poll tasks,suspended unsubscribes,assert failed
*)
let st_of_char = function '1' -> STrue | '0' -> SFalse | '2' -> SNone | _ -> failwith "status code"
let char_of_st s = string_of_int (int_of_z (st_code s))
let vals_of w = if w = "-" then [] else List.init (String.length w) (fun i -> st_of_char w.[i])
let ints_of s sep = if s = "" then [] else List.map int_of_string (String.split_on_char sep s)

let cfg_of w =
  if w = "none" then None
  else if w = "-" then Some []
  else Some (List.map (fun item ->
      match String.split_on_char '=' item with
      | [n; ids] -> (z_of_int (int_of_string n), List.map nat_of_int (ints_of ids ','))
      | _ -> failwith "cfg item") (String.split_on_char ';' w))

let show_reg r =
  String.concat ";" (List.map (fun (n, ids) ->
      string_of_int (int_of_z n) ^ "=" ^ String.concat "," (List.map (fun i -> string_of_int (int_of_nat i)) ids)) r)

let pc_char = function PSending -> "S" | PWaiting -> "W" | PWaking -> "K" | PIdle -> "I" | PEnded -> "E"
let wst_of_char = function
  | 'N' -> WNew | 'B' -> WBlocked | 'K' -> WWoken | 'D' -> WDone | 'C' -> WCancelled | '-' -> WCancelled
  | _ -> failwith "wait state"

let cmd_of w =
  match String.split_on_char ':' w with
  | ["s"; i; v] -> CExt (OSet (nat_of_int (int_of_string i), st_of_char v.[0]))
  | ["w"; n; sl] -> CSpawn (OWatch (z_of_int (int_of_string n), sl = "1"))
  | ["i"; n] -> CIter (nat_of_int (int_of_string n))
  | ["q"] -> CSettle
  | ["r"; k] -> CRelease (nat_of_int (int_of_string k))
  | ["l"; k; b] -> CExt (OLocal (nat_of_int (int_of_string k), LSetSlow (b = "1")))
  | ["c"; k] -> CExt (OLocal (nat_of_int (int_of_string k), LCancel))
  | _ -> failwith ("cmd " ^ w)

let snapshot s =
  String.concat "," (List.mapi (fun k w ->
      Printf.sprintf "%d.%s.%d" k (pc_char w.w_pc) (List.length w.w_sent)) s.s_ws)

let fres_of = function "T" -> FTrue | "F" -> FFalse | "N" -> FNone | "B" -> FNonBool | "R" -> FRaise
                     | _ -> failwith "fres"
let show_fres = function FTrue -> "T" | FFalse -> "F" | FNone -> "N" | FNonBool -> "B" | FRaise -> "R"
let show_how = function HRet r -> "ret" ^ show_fres r | HTimeout -> "timeout" | HAborted -> "aborted"
let zi z = string_of_int (int_of_z z)
let show_caller = function
  | CWait -> "wait" | CWoken -> "woken" | CRun b -> if b then "run!" else "run"
  | CRet (v, t) -> "ret:" ^ char_of_st v ^ ":" ^ zi t
  | CCancelled t -> "cancelled:" ^ zi t

let rec split_at key = function
  | [] -> ([], [])
  | x :: r -> if x = key then ([], r) else let (a, b) = split_at key r in (x :: a, b)

let handle = function
  | "agg" :: cs -> zi (resp_code (agg_status (List.map (fun c -> st_of_char c.[0]) cs)))
  | ["init"; cfg] -> show_reg (health_init (cfg_of cfg))
  | ["check"; cfg; vals; name] ->
    (match check_rpc (health_init (cfg_of cfg)) (vals_of vals) (z_of_int (int_of_string name)) with
     | CA_Status n -> "status " ^ zi n
     | CA_Resp r -> "resp " ^ zi (resp_code r))
  | "watch" :: cfg :: vals :: cmds ->
    let fuel = nat_of_int 400 in
    let sq = ref (winit (health_init (cfg_of cfg)) (vals_of vals), []) in
    let snaps = List.map (fun w -> sq := run_cmd fuel !sq (cmd_of w); snapshot (fst !sq)) cmds in
    let s = fst !sq in
    String.concat "|" snaps ^ " = " ^
    String.concat ";" (List.mapi (fun k w ->
        string_of_int k ^ ":" ^ String.concat "," (List.rev_map (fun r -> zi (resp_code r)) w.w_sent)) s.s_ws)
    ^ " " ^ (if snd !sq = [] then "idle" else "busy") ^ " " ^ word_of_bool (quiescent s)
  | "reset" :: vals :: slots ->
    let v = vals_of vals in
    String.concat " " (List.mapi (fun i w ->
        let sl = { sl_check = nat_of_int i; sl_ev = (w.[0] = '1'); sl_wait = wst_of_char w.[1]; sl_seen = SNone } in
        let sl' = reset_slot v sl in
        let renewed = (match sl.sl_wait with WDone | WCancelled -> true | _ -> false)
                      && (match sl'.sl_wait with WNew -> true | _ -> false) in
        word_of_bool sl'.sl_ev ^ word_of_bool renewed ^ char_of_st sl'.sl_seen) slots)
  | "sc" :: ttl :: tmo :: hor :: "S" :: rest ->
    let (script, evs) = split_at "E" rest in
    let script = List.map (fun w -> match String.split_on_char ':' w with
        | [d; r] -> (z_of_int (int_of_string d), fres_of r) | _ -> failwith "script") script in
    let evs = List.map (fun w -> match String.split_on_char ':' w with
        | [t; "call"] -> (z_of_int (int_of_string t), TCall None)
        | [t; "call"; a] -> (z_of_int (int_of_string t), TCall (Some (z_of_int (int_of_string a))))
        | [t; "cancel"; k] -> (z_of_int (int_of_string t), TCancel (nat_of_int (int_of_string k)))
        | _ -> failwith "event") evs in
    let t = run_timed (nat_of_int 200) (z_of_int (int_of_string ttl)) (z_of_int (int_of_string tmo))
        script evs (z_of_int (int_of_string hor)) in
    let k = t.t_k in
    Printf.sprintf "v=%s last=%s lock=%s callers=%s log=%s notes=%s inflight=%s"
      (char_of_st k.k_value) (match k.k_last with Some l -> zi l | None -> "-") (word_of_bool k.k_lock)
      (String.concat "," (List.map show_caller k.k_callers))
      (String.concat "," (List.rev_map (fun ((s, e), h) -> zi s ^ ":" ^ zi e ^ ":" ^ show_how h) k.k_log))
      (String.concat "," (List.rev_map (fun (t, v) -> zi t ^ ":" ^ char_of_st v) k.k_notes))
      (match k.k_run with Some ((s, _), _) -> zi s | None -> "-")
  | "poll" :: cmds ->
    (* j = a watcher subscribes, l = a watcher unsubscribes, q = everything pending runs; one snapshot per q *)
    let s = ref pinit in
    let snaps = ref [] in
    List.iter (fun w ->
        match w with
        | "j" -> s := pstep !s PSub
        | "l" -> s := pstep !s PUnsub
        | "q" -> s := psettle !s;
          snaps := Printf.sprintf "%d,%s,%d,%d,%s" (int_of_nat !s.p_events)
              (match !s.p_poll with Some _ -> "1" | None -> "0") (int_of_nat (live_pollers !s))
              (List.length !s.p_waiting) (word_of_bool !s.p_err) :: !snaps
        | _ -> failwith "poll cmd") cmds;
    String.concat "|" (List.rev !snaps)
  | _ -> failwith "unknown command"

let () = main_loop handle
