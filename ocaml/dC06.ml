(* driver for the C06 model.  One history per line:
     <side c|s> <cs> <ss> <remote> <step>*
   step = <call>~<result>~<flags>~<frames>      (what the implementation did)
     call    = P | <op>.<end>.<ok>     op in sr sm en ri rm rt ca si st
     result  = o | r | e               (ok / refused with ProtocolError / other error)
     flags   = 9 chars 0/1 in the order of Model/StreamSem.flags
     frames  = - | frame(;frame)*      frame = H.<es>.<ok>.<names> | D.<es> | E | R
     names   = - | letters: m s p a t e c u S g M d
   The model is nondeterministic (adversarial environment): the driver keeps the set of model states
   compatible with the observations so far and answers
     ok <size of the final belief set> <all good: 0|1>
   or mismatch <index> <call> :: possible outcomes of that call from the belief set *)
let op_of = function
  | "sr" -> OpSendRequest | "sm" -> OpSendMessage | "en" -> OpEnd | "ri" -> OpRecvInitialMetadata
  | "rm" -> OpRecvMessage | "rt" -> OpRecvTrailingMetadata | "ca" -> OpCancel
  | "si" -> OpSendInitialMetadata | "st" -> OpSendTrailingMetadata | _ -> failwith "op"
let hn_code = function
  | HN_method -> 'm' | HN_scheme -> 's' | HN_path -> 'p' | HN_authority -> 'a' | HN_grpc_timeout -> 't'
  | HN_te -> 'e' | HN_content_type -> 'c' | HN_user_agent -> 'u' | HN_status -> 'S'
  | HN_grpc_status -> 'g' | HN_grpc_message -> 'M' | HN_status_details -> 'd'
let names_str ns =
  let l = List.sort_uniq compare (List.map hn_code ns) in
  if l = [] then "-" else String.init (List.length l) (List.nth l)
let b c = if c then "1" else "0"
let frame_str side = function
  | FHeaders (ns, es, ok) ->
    (* the status bit is observable only on a block that ends the stream on the server side *)
    let okbit = if side = Server && es then b ok else "x" in
    "H." ^ b es ^ "." ^ okbit ^ "." ^ names_str ns
  | FData es -> "D." ^ b es
  | FEnd -> "E"
  | FRst -> "R"
let frames_str side fs = if fs = [] then "-" else String.concat ";" (List.map (frame_str side) fs)
let flags_str f =
  String.concat "" (List.map b [f.f_send_request_done; f.f_send_message_done; f.f_end_done;
    f.f_recv_initial_metadata_done; f.f_recv_trailing_metadata_done; f.f_cancel_done;
    f.f_trailers_only; f.f_send_initial_metadata_done; f.f_send_trailing_metadata_done])
let res_str = function ROk -> "o" | RRefused -> "r" | RError -> "e"
let canon_obs_frames s =
  (* sort the name letters of observed H frames the same way *)
  if s = "-" then s else
  String.concat ";" (List.map (fun f ->
    match String.split_on_char '.' f with
    | ["H"; es; ok; ns] ->
      let l = List.sort_uniq compare (List.init (String.length ns) (String.get ns)) in
      let ns' = if ns = "-" then "-" else String.init (List.length l) (List.nth l) in
      "H." ^ es ^ "." ^ ok ^ "." ^ ns'
    | _ -> f) (String.split_on_char ';' s))
let parse_call w =
  if w = "P" then PeerEnds else
  match String.split_on_char '.' w with
  | [o; e; k] -> Call (op_of o, bool_of_word e, bool_of_word k)
  | _ -> failwith "call"

let rec dedup = function
  | [] -> []
  | x :: r -> if List.exists (gstate_eqb x) r then dedup r else x :: dedup r

let handle = function
  | sd :: cs :: ss :: remote :: steps ->
    let side = if sd = "c" then Client else Server in
    let tbl = if sd = "c" then client_ops else server_ops in
    let cs = bool_of_word cs and ss = bool_of_word ss in
    let belief = ref [init side (bool_of_word remote)] in
    let out = ref None in
    List.iteri (fun i stp ->
      if !out = None then begin
        match String.split_on_char '~' stp with
        | [c; r; fl; fr] ->
          let call = parse_call c in
          let fr = canon_obs_frames fr in
          let succ = List.concat_map (fun g -> gstep side tbl cs ss g call) !belief in
          let descr ((g', r'), fs) = res_str r' ^ "~" ^ flags_str g'.g_fl ^ "~" ^ frames_str side fs in
          let matching = List.filter (fun x -> descr x = r ^ "~" ^ fl ^ "~" ^ fr) succ in
          if matching = [] then
            out := Some (Printf.sprintf "mismatch %d %s :: %s" i c
                           (String.concat " | " (List.sort_uniq compare (List.map descr succ))))
          else belief := dedup (List.map (fun ((g', _), _) -> g') matching)
        | _ -> failwith "step"
      end) steps;
    (match !out with
     | Some m -> m
     | None -> Printf.sprintf "ok %d %s" (List.length !belief)
                 (b (List.for_all (fun g -> good side cs ss g) !belief)))
  | _ -> failwith "line"

let () = main_loop handle
