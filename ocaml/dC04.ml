(* driver for the C04 model.  One cell of the matrix per line:
     <op> <reason> <event> <order> <deadline 0|1> <status> <variant>
   op sr|sm|en|ri|rm|rt|ca|ax|cl.uu|cl.us|cl.su|cl.ss   reason paused|window|slot|silent   event rst|goaway|garbage|lost|close|serr
   order before|during   status none|h503|h200|h200m|tonly<k>|trailers<k>   variant base|implicit|after_headers
   Answer: what Model/Termination.predict computes for the cell on the generated client operations:
     setup=.. blocked=<site|no> registered=0|1 werr=<class> op=<class> ctx=<class> late=<class>
     inpaths=0|1 missed=0|1
   or a group of concurrent operations of one call:
     multi <paused 0|1> <window 0|1> <headers 0|1> <event> <deadline 0|1> <ops,comma|-> <mid,comma|-> <after,comma|->
     (mid steps: reply | credit | resume | s.<op>)
   answered by Model/Termination.predict_multi:
     setup=.. blocked=<0|1,..|-> during=<class,..|-> after=<class,..|-> inpaths=0|1 *)
let op_of = function
  | "sr" -> KSr | "sm" -> KSm | "en" -> KEn | "ri" -> KRi | "rm" -> KRm | "rt" -> KRt | "ca" -> KCa
  | "ax" -> KAx | "cl.uu" | "cl.us" -> KCall false | "cl.su" | "cl.ss" -> KCall true
  | _ -> failwith "op"
let reason_of = function
  | "paused" -> RPaused | "window" -> RWindow | "slot" -> RSlot | "silent" -> RSilent
  | _ -> failwith "reason"
let event_of = function
  | "rst" -> VRst | "goaway" -> VGoaway | "garbage" -> VGarbage | "lost" -> VLost | "close" -> VClose | "serr" -> VSerr
  | _ -> failwith "event"
let starts_with p s = String.length s >= String.length p && String.sub s 0 (String.length p) = p
let tail p s = String.sub s (String.length p) (String.length s - String.length p)
let status_of s =
  if s = "none" then StNone else if s = "h503" then StH503
  else if s = "h200" then StH200 else if s = "h200m" then StH200Msg
  else if starts_with "tonly" s then StTonly (z_of_int (int_of_string (tail "tonly" s)))
  else if starts_with "trailers" s then StTrailers (z_of_int (int_of_string (tail "trailers" s)))
  else failwith "status"
let variant_of = function
  | "base" -> VaBase | "implicit" -> VaImplicit | "after_headers" -> VaAfterHeaders
  | _ -> failwith "variant"
let setup_str = function
  | SOk -> "ok" | SNotBlocked -> "op-not-blocked" | SNoStreamForRst -> "no-stream-for-rst"
  | SRstInfeasible -> "rst-infeasible" | SUnaffected -> "call-unaffected" | SStatusInfeasible -> "status-infeasible" | SError -> "model-error"
let site_str = function
  | None -> "no"
  | Some (SHook _) -> "hook"
  | Some (SPrim p) ->
    (match p with
     | PConnect -> "connect" | PSendRequest _ -> "send_request" | PSendHeaders _ -> "send_headers"
     | PSendData _ -> "send_data" | PEnd -> "end" | PReset -> "reset" | PRecvHeaders -> "recv_headers"
     | PRecvMessage -> "recv_message" | PRecvTrailers -> "recv_trailers")
let out_str = function
  | OOk -> "ok" | OTerminated -> "StreamTerminated" | OTimeout -> "Timeout"
  | OGrpc k -> "GRPCError:" ^ string_of_int (int_of_z k) | OProtocol -> "ProtocolError"
  | OCancelled -> "Cancelled" | OOther -> "other" | OPending -> "pending"
let b x = if x then "1" else "0"

let ops_of w = if w = "-" then [] else List.map op_of (String.split_on_char ',' w)
let outs l = if l = [] then "-" else String.concat "," (List.map out_str l)

let handle = function
  | ["multi"; pa; wi; he; e; dl; ops; mid; after] ->
    let step_of w = match w with
      | "reply" -> MReply | "credit" -> MCredit | "resume" -> MResume
      | _ -> if starts_with "s." w then MStart (op_of (tail "s." w)) else failwith "step" in
    let mid = if mid = "-" then [] else List.map step_of (String.split_on_char ',' mid) in
    let m = { m_ops = ops_of ops; m_mid = mid; m_after = ops_of after; m_paused = bool_of_word pa;
              m_window = bool_of_word wi; m_headers = bool_of_word he; m_event = event_of e;
              m_deadline = bool_of_word dl } in
    let p = predict_multi client_ops m in
    Printf.sprintf "setup=%s blocked=%s during=%s after=%s inpaths=%s" (setup_str p.mp_setup)
      (if p.mp_blocked = [] then "-" else String.concat "," (List.map b p.mp_blocked))
      (outs p.mp_during) (outs p.mp_after) (b p.mp_inpaths)
  | [o; r; e; ord; dl; stt; v] ->
    let c = { c_op = op_of o; c_reason = reason_of r; c_event = event_of e;
              c_during = (match ord with "during" -> true | "before" -> false | _ -> failwith "order");
              c_deadline = bool_of_word dl; c_status = status_of stt; c_variant = variant_of v } in
    let p = predict client_ops c in
    Printf.sprintf "setup=%s blocked=%s registered=%s werr=%s op=%s ctx=%s late=%s inpaths=%s missed=%s"
      (setup_str p.p_setup) (site_str p.p_blocked) (b p.p_registered) (out_str p.p_werr)
      (out_str p.p_op) (out_str p.p_ctx) (out_str p.p_late) (b p.p_inpaths) (b p.p_missed)
  | _ -> failwith "line"

let () = main_loop handle
