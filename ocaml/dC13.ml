(* driver for the C13 model: one case per line
   encbin <hex>                      -> <hex>
   decbin <hex>                      -> ok <hex> | err
   b64 <hex>                         -> <hex>            (padded encoder)
   enc <n> (<key-cps> <val>)*        -> ok <n> (<key-cps> <val-cps>)* | err value | err type
        val = s:<cps> | b:<hex> | o
   dec <n> (<key-cps> <val-cps>)*    -> ok <n> (<key-cps> s:<cps>|b:<hex>)* | err unicode | err binascii
   valid <n> (<key-cps> <val>)*      -> 0|1
*)
let parse_val w =
  if w = "o" then VOther
  else if String.length w >= 2 && String.sub w 0 2 = "s:" then
    VStr (cps_of_string (let r = String.sub w 2 (String.length w - 2) in if r = "" then "-" else r))
  else VBytes (bytes_of_hex (let r = String.sub w 2 (String.length w - 2) in if r = "" then "-" else r))

let show_val = function
  | VStr s -> "s:" ^ string_of_cps s
  | VBytes b -> "b:" ^ hex_of_bytes b
  | VOther -> "o"

let rec pairs f = function
  | k :: v :: r -> (cps_of_string k, f v) :: pairs f r
  | [] -> []
  | _ -> failwith "odd number of words"

let handle = function
  | ["encbin"; h] -> hex_of_bytes (encode_bin_value (bytes_of_hex h))
  | ["b64"; h] -> hex_of_bytes (b64encode (bytes_of_hex h))
  | ["decbin"; h] -> (match decode_bin_value (bytes_of_hex h) with
      | Some b -> "ok " ^ hex_of_bytes b | None -> "err")
  | "enc" :: _ :: rest ->
    (match encode_metadata (pairs parse_val rest) with
     | Ok hs -> String.concat " " ("ok" :: string_of_int (List.length hs) ::
                                   List.concat_map (fun (k, v) -> [string_of_cps k; string_of_cps v]) hs)
     | Err EValueError -> "err value"
     | Err ETypeError -> "err type")
  | "dec" :: _ :: rest ->
    (match decode_metadata (pairs cps_of_string rest) with
     | Ok md -> String.concat " " ("ok" :: string_of_int (List.length md) ::
                                   List.concat_map (fun (k, v) -> [string_of_cps k; show_val v]) md)
     | Err DUnicode -> "err unicode"
     | Err DBinascii -> "err binascii")
  | "valid" :: _ :: rest -> word_of_bool (md_valid (pairs parse_val rest))
  | _ -> failwith "unknown command"

let () = main_loop handle
