(* driver for the C16 model (Model/Channel.v): one case per line
   case <n> (oi|od|fi|fd){n} <tok>*      tok: "/" ends a batch;  s start | r resolve | c<k> cancel |
                                          l<c> lose | g<c> goaway | k kaclose | x Channel.close |
                                          p<c> pause | u<c> resume | a<k> answer | h<c> hold (withhold connection_lost)
   answer: one observation per batch, joined by " | ":
     C<creates> F<in flight> P<protocol|-> L<locked> W<waiters> S<state> V<live> [lcd:n,...] {caller,...}
*)
let script_item w =
  ((match w.[0] with 'o' -> OOk | 'f' -> OFail | _ -> failwith "script outcome"),
   (match w.[1] with 'i' -> true | 'd' -> false | _ -> failwith "script mode"))

let num w = nat_of_int (int_of_string (String.sub w 1 (String.length w - 1)))

let stim_of w = match w.[0] with
  | 's' -> SStart | 'r' -> SResolve | 'k' -> SKAClose | 'x' -> SChClose
  | 'c' -> SCancel (num w) | 'l' -> SLose (num w) | 'g' -> SGoAway (num w)
  | 'p' -> SPause (num w) | 'u' -> SResume (num w) | 'a' -> SAnswer (num w) | 'h' -> SHold (num w)
  | _ -> failwith "stimulus"

let rec split_batches cur acc = function
  | [] -> List.rev (if cur = [] then acc else List.rev cur :: acc)
  | "/" :: r -> split_batches [] (List.rev cur :: acc) r
  | w :: r -> split_batches (stim_of w :: cur) acc r

let b2 b = if b then "1" else "0"
let exn_name = function
  | EOSError -> "OSError" | ECancelled -> "Cancelled" | ETerminated -> "StreamTerminated"
  | EAttr -> "AttributeError" | EProto -> "ProtocolError"
let show_caller x = match x.ph with
  | PEnd (ROk c) -> "ok:" ^ string_of_int (int_of_nat c)
  | PEnd (RExn e) -> "x:" ^ exn_name e
  | _ -> "p"
let show_conn x = b2 x.lost ^ b2 x.closing ^ b2 x.delivered ^ ":" ^ string_of_int (List.length x.calls)
let show_state s =
  Printf.sprintf "C%d F%d P%s L%s W%d S%d V%d [%s] {%s}"
    (int_of_nat s.creates) (int_of_nat (attempts_in_flight s))
    (match s.protocol with None -> "-" | Some c -> string_of_int (int_of_nat c))
    (b2 s.locked) (List.length s.waiters)
    (match s.chst with Idle -> 1 | Connecting -> 2 | Ready -> 3 | TransientFailure -> 4)
    (int_of_nat (live_connections s))
    (String.concat "," (List.map show_conn s.conns))
    (String.concat "," (List.map show_caller s.callers))

let rec take n l = if n = 0 then ([], l) else match l with
  | x :: r -> let (a, b) = take (n - 1) r in (x :: a, b) | [] -> failwith "short script"

let handle = function
  | "case" :: n :: rest ->
    let (sc, toks) = take (int_of_string n) rest in
    let bs = split_batches [] [] toks in
    let (_, states) = batches (init (List.map script_item sc)) bs in
    String.concat " | " (List.map show_state states)
  | _ -> failwith "unknown command"

let () = main_loop handle
