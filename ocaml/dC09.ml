(* driver for the C09 model (Model/ServerLife.v): one case per line
   run <tok>*        tokens: st | cn | op c i <beh> <dl> <prog> | m c i | cr c i | tk | rs c i | dl c i
                             | ga c | lo c | sc | wc | ru c i | rw | se
                     beh = h<n> | sw ; dl = 0|1 ; prog = word over R S W T X, or - for the empty program
        -> one snapshot per `se`, joined by " | ":
           <task>,<task>,...;W<stage>;X<crashed conns>;E<serr>;H<connections whose Handler is in Server._handlers>
           task = c.i:<phase>:<ncancel>:<nhit>:<cleanup_done>:<registered>:<in_tasks>:<in_cancelled>:<late>:<werr>
           phase = C | R<awaits left after the current one> | K<sleeps left> | F
   pair <a> <b>      a, b in rst dl ga lo sc   -> 0|1   (second cause lands in the cleanup)
   gx <started bits> <sig,sig,...>            -> <closes,...> <flag> <exit codes in order raised,...>
*)
let ni = nat_of_int
let kind_of_char = function
  | 'R' -> AR | 'S' -> AS | 'W' -> AW | 'T' -> AT
  | 'X' -> AT   (* trailers with a non-OK status (the server also resets the stream): never blocks either *)
  | _ -> failwith "await kind"
let prog_of_word w = if w = "-" then [] else List.init (String.length w) (fun i -> kind_of_char w.[i])
let beh_of_word w =
  if w = "sw" then Swallow
  else if String.length w >= 2 && w.[0] = 'h' then Honour (ni (int_of_string (String.sub w 1 (String.length w - 1))))
  else failwith "behaviour"

let rec parse = function
  | [] -> []
  | "st" :: r -> Do Start :: parse r
  | "cn" :: r -> Do Connect :: parse r
  | "op" :: c :: i :: b :: d :: p :: r ->
    Do (Open (ni (int_of_string c), ni (int_of_string i), prog_of_word p, beh_of_word b, d = "1")) :: parse r
  | "m" :: c :: i :: r -> Do (Msg (ni (int_of_string c), ni (int_of_string i))) :: parse r
  | "cr" :: c :: i :: r -> Do (Credit (ni (int_of_string c), ni (int_of_string i))) :: parse r
  | "tk" :: r -> Do Tick :: parse r
  | "rs" :: c :: i :: r -> Do (Rst (ni (int_of_string c), ni (int_of_string i))) :: parse r
  | "dl" :: c :: i :: r -> Do (Deadline (ni (int_of_string c), ni (int_of_string i))) :: parse r
  | "ga" :: c :: r -> Do (Goaway (ni (int_of_string c))) :: parse r
  | "lo" :: c :: r -> Do (Lost (ni (int_of_string c))) :: parse r
  | "sc" :: r -> Do SrvClose :: parse r
  | "wc" :: r -> Do WaitClosed :: parse r
  | "ru" :: c :: i :: r -> Do (Run (ni (int_of_string c), ni (int_of_string i))) :: parse r
  | "rw" :: r -> Do RunW :: parse r
  | "se" :: r -> Settle :: parse r
  | w :: _ -> failwith ("token " ^ w)

let b2s b = if b then "1" else "0"
let show_phase = function
  | Created _ -> "C"
  | Running (_, rest) -> "R" ^ string_of_int (List.length rest)
  | Cleanup n -> "K" ^ string_of_int (int_of_nat n + 1)
  | Finished -> "F"
let show_task t =
  Printf.sprintf "%d.%d:%s:%d:%d:%s:%s:%s:%s:%s:%s" (int_of_nat t.tc) (int_of_nat t.ti) (show_phase t.ph)
    (int_of_nat t.ncancel) (int_of_nat t.nhit) (b2s t.cleanup_done) (b2s t.registered)
    (b2s t.in_tasks) (b2s t.in_cancelled) (b2s t.late) (b2s t.werr)
let show_w = function
  | WNone -> "none" | WLatch -> "latch" | WServer -> "server" | WSub _ -> "sub" | WDone -> "done" | WErr -> "err"
let snapshot s =
  let crashed = List.concat (List.mapi (fun i k -> if k.crashed then [string_of_int i] else []) s.conns) in
  let handlers = List.concat (List.mapi (fun i k -> if k.in_handlers then [string_of_int i] else []) s.conns) in
  String.concat "," (List.map show_task s.tasks) ^ ";W" ^ show_w s.wst ^ ";X" ^ String.concat "," crashed ^
  ";E" ^ b2s s.srv.serr ^ ";H" ^ String.concat "," handlers

let cause_of_word = function
  | "rst" -> CRst | "dl" -> CDeadline | "ga" -> CGoaway | "lo" -> CLost | "sc" -> CSrvClose
  | _ -> failwith "cause"

let handle = function
  | "run" :: toks ->
    let hops = parse toks in
    let (_, snaps) = List.fold_left (fun (s, acc) h ->
        let s' = hstep s h in
        match h with Settle -> (s', snapshot s' :: acc) | _ -> (s', acc)) (init, []) hops in
    if snaps = [] then "-" else String.concat " | " (List.rev snaps)
  | ["pair"; a; b] -> word_of_bool (pair_lands (cause_of_word a) (cause_of_word b))
  | ["gx"; bits; sigs] ->
    let servers = if bits = "-" then [] else
        List.init (String.length bits) (fun i -> { g_started = (bits.[i] = '1'); g_closes = O }) in
    let sigl = if sigs = "-" then [] else List.map int_of_string (String.split_on_char ',' sigs) in
    let st = List.fold_left (fun st sg -> exit_handler (ni sg) st)
        { g_servers = servers; g_flag = false; g_exits = [] } sigl in
    let closes = String.concat "," (List.map (fun g -> string_of_int (int_of_nat g.g_closes)) st.g_servers) in
    let exits = String.concat "," (List.rev_map (fun n -> string_of_int (int_of_nat n)) st.g_exits) in
    (if closes = "" then "-" else closes) ^ " " ^ b2s st.g_flag ^ " " ^ (if exits = "" then "-" else exits)
  | "wset" :: toks ->
    (* one Wrapper, several tasks: e<t> = task t enters `with wrapper`, x<t> = leaves, k = wrapper.cancel(err)
       -> <tasks cancelled by cancel()> <tasks whose __enter__ was refused> <tasks still registered> *)
    let op w = let n = ni (int_of_string (String.sub w 1 (String.length w - 1))) in
      if w.[0] = 'e' then WEnter n else WExit n in
    let ops = List.map (fun w -> if w = "k" then WCancel else op w) toks in
    let r = wrun ops in
    let show l = if l = [] then "-" else
        String.concat "," (List.map string_of_int (List.sort compare (List.map int_of_nat l))) in
    show r.wcancelled ^ " " ^ show r.wrefused ^ " " ^ show r.wtasks
  | _ -> failwith "unknown command"

let () = main_loop handle
