(* driver for the C18 model (Model/Events.v): one case per line

   <side> ; <op> ; <op> ; ...            side = C (Channel's dispatch object) | S (Server's)
   ops act on dispatch objects 0..3, all created fresh as `obj_for side`:
     A <obj> <event-class cps> <listener id> <n> <act>*      add_listener
          act = i | s<g>:<field cps>:<value cps> | a<g>:<field cps>:<value cps>     (g = 0|1 guarded)
     K <obj> <method cps> <npos> <value cps>* <nkw> (<name cps> <value cps>)*       await obj.method(...)
     F                                                        well-formedness of the generated tables
   answer: the results of the ops joined by " ; "
     A -> ok | KeyError
     K -> ret <log> <errs> <n> <value cps>*  |  exn A|T <log> <errs>  |  nomethod  |  badcall
          log = ids "a,b,c" or "-" ; errs = "l.i,l.i" or "-"
     F -> 0 | 1
*)
let split_on tok l =
  let rec go cur acc = function
    | [] -> List.rev (List.rev cur :: acc)
    | w :: r when w = tok -> go [] (List.rev cur :: acc) r
    | w :: r -> go (w :: cur) acc r in
  go [] [] l

let parse_act w =
  if w = "i" then AInterrupt
  else
    match String.split_on_char ':' w with
    | [k; f; v] when String.length k = 2 ->
      let g = (k.[1] = '1') in
      let f = cps_of_string f and v = cps_of_string v in
      if k.[0] = 's' then ASet (f, v, g)
      else if k.[0] = 'a' then AApp (f, v, g)
      else failwith ("action kind " ^ w)
    | _ -> failwith ("action " ^ w)

let rec take n l = if n <= 0 then ([], l) else match l with
  | [] -> failwith "short line"
  | x :: r -> let (a, b) = take (n - 1) r in (x :: a, b)

let show_ids l = if l = [] then "-" else String.concat "," (List.map (fun z -> string_of_int (int_of_z z)) l)
let show_errs l =
  if l = [] then "-"
  else String.concat "," (List.map (fun (a, b) -> string_of_int (int_of_z a) ^ "." ^ string_of_int (int_of_z b)) l)

let show_res = function
  | HNoMethod -> "nomethod"
  | HBadCall -> "badcall"
  | HRes r ->
    (match r.d_out with
     | Inl vs -> String.concat " " ("ret" :: show_ids r.d_log :: show_errs r.d_errs ::
                                    string_of_int (List.length vs) :: List.map string_of_cps vs)
     | Inr e -> String.concat " " ["exn"; (match e with XAttr -> "A" | XType -> "T");
                                   show_ids r.d_log; show_errs r.d_errs])

let handle ws =
  match split_on ";" ws with
  | [side] :: ops ->
    let s = (match side with "C" -> Client | "S" -> Server | _ -> failwith "side") in
    let objs = Array.make 4 (obj_for s) in
    let run = function
      | "A" :: o :: ev :: lid :: n :: rest ->
        let (acts, rest') = take (int_of_string n) rest in
        if rest' <> [] then failwith "trailing words in A";
        let o = int_of_string o in
        let l = { l_id = z_of_int (int_of_string lid); l_acts = List.map parse_act acts } in
        (match add_listener objs.(o) (cps_of_string ev) l with
         | Some d -> objs.(o) <- d; "ok"
         | None -> "KeyError")
      | "K" :: o :: m :: npos :: rest ->
        let (pos, rest1) = take (int_of_string npos) rest in
        (match rest1 with
         | nkw :: rest2 ->
           let (kws, rest3) = take (2 * int_of_string nkw) rest2 in
           if rest3 <> [] then failwith "trailing words in K";
           let rec pairs = function
             | k :: v :: r -> (cps_of_string k, cps_of_string v) :: pairs r
             | [] -> []
             | _ -> failwith "odd keywords" in
           show_res (call_hook objs.(int_of_string o) (cps_of_string m)
                       (List.map cps_of_string pos) (pairs kws))
         | [] -> failwith "K without keyword count")
      | ["F"] -> word_of_bool sites_all_ok
      | _ -> failwith "unknown op" in
    String.concat " ; " (List.map run ops)
  | _ -> failwith "empty line"

let () = main_loop handle
