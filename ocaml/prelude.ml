(* prelude.ml -- glue between the extracted Coq datatypes and the line protocol of the harness.
   It is textually placed after the extracted module (which must define positive, z, n, nat)
   and before the per-property driver.  Nothing here computes anything about the model: it only
   converts numbers and byte strings and splits lines. *)

let rec pos_of_int i =
  if i <= 1 then XH
  else if i land 1 = 1 then XI (pos_of_int (i lsr 1)) else XO (pos_of_int (i lsr 1))
let z_of_int i = if i = 0 then Z0 else if i > 0 then Zpos (pos_of_int i) else Zneg (pos_of_int (- i))
let rec int_of_pos = function XH -> 1 | XO p -> 2 * int_of_pos p | XI p -> 2 * int_of_pos p + 1
let int_of_z = function Z0 -> 0 | Zpos p -> int_of_pos p | Zneg p -> - (int_of_pos p)
let n_of_int i = if i = 0 then N0 else Npos (pos_of_int i)
let int_of_n = function N0 -> 0 | Npos p -> int_of_pos p
let rec nat_of_int i = if i <= 0 then O else S (nat_of_int (i - 1))
let int_of_nat n = let rec go a = function O -> a | S m -> go (a + 1) m in go 0 n

(* arbitrary-size integers travel as hexadecimal: [-]h...h *)
let pos_bits p = let rec go acc = function XH -> true :: acc | XO q -> go (false :: acc) q
                                          | XI q -> go (true :: acc) q in List.rev (go [] p)
(* pos_bits: least-significant bit first *)
let hex_of_pos p =
  let bits = Array.of_list (pos_bits p) in
  let nb = Array.length bits in
  let nd = (nb + 3) / 4 in
  let b = Buffer.create nd in
  for d = nd - 1 downto 0 do
    let v = ref 0 in
    for k = 3 downto 0 do
      let i = d * 4 + k in
      v := !v * 2 + (if i < nb && bits.(i) then 1 else 0)
    done;
    Buffer.add_char b "0123456789abcdef".[!v]
  done; Buffer.contents b
let hex_of_z = function Z0 -> "0" | Zpos p -> hex_of_pos p | Zneg p -> "-" ^ hex_of_pos p
let hexval c = match c with
  | '0'..'9' -> Char.code c - 48 | 'a'..'f' -> Char.code c - 87 | 'A'..'F' -> Char.code c - 55
  | _ -> failwith "hex digit"
let pos_of_hex s =
  (* most significant digit first; returns option (None for zero) *)
  let bits = ref [] in
  String.iter (fun c -> let v = hexval c in
    bits := (v land 1 = 1) :: (v land 2 = 2) :: (v land 4 = 4) :: (v land 8 = 8) :: !bits) s;
  (* !bits is now least-significant first; high zero bits vanish in build *)
  let rec build = function
    | [] -> None
    | b :: r -> (match build r with
        | None -> if b then Some XH else None
        | Some q -> Some (if b then XI q else XO q)) in
  build !bits
let z_of_hex s =
  if s = "" then Z0 else
  let neg = s.[0] = '-' in
  let body = if neg then String.sub s 1 (String.length s - 1) else s in
  match pos_of_hex body with None -> Z0 | Some p -> if neg then Zneg p else Zpos p

(* byte strings: hex, "-" for the empty string; as lists of z in 0..255 *)
let bytes_of_hex s =
  if s = "-" then [] else
  let n = String.length s / 2 in
  List.init n (fun i -> z_of_int (hexval s.[2*i] * 16 + hexval s.[2*i+1]))
let hex_of_bytes l =
  if l = [] then "-" else
  String.concat "" (List.map (fun z -> Printf.sprintf "%02x" ((int_of_z z) land 255)) l)
(* code-point strings: comma separated decimal, "-" for empty *)
let cps_of_string s =
  if s = "-" then [] else List.map (fun t -> z_of_int (int_of_string t)) (String.split_on_char ',' s)
let string_of_cps l =
  if l = [] then "-" else String.concat "," (List.map (fun z -> string_of_int (int_of_z z)) l)

let words line = List.filter (fun w -> w <> "") (String.split_on_char ' ' line)
let bool_of_word w = (w = "1" || w = "true" || w = "T")
let word_of_bool b = if b then "1" else "0"

let main_loop (handle : string list -> string) =
  (try
    while true do
      let line = input_line stdin in
      let out = (try handle (words line) with
                 | Failure m -> "DRIVER-ERROR " ^ m
                 | Not_found -> "DRIVER-ERROR not_found"
                 | Invalid_argument m -> "DRIVER-ERROR invalid_argument " ^ m) in
      print_string out; print_char '\n'
    done
  with End_of_file -> ());
  flush stdout
