(* driver for the C08 model (Model/RecvLedger.v): one case per line
   h <ev>*      events:  O:sid  D:sid:n:pad|-  E:sid  R:sid:size  W:sid  C:sid  X:sid  Z  P (pause)  Q (resume)
     -> per event its outputs (comma separated, "." for none):
          r<sid>:<k> received | a<sid>:<k> acknowledged | d<sid>:<k> forfeited (closing) | b<sid> read blocked |
          R<sid>:<data|eof|empty|assert|badsize|busy|nostream>
        then "|" and per stream id mentioned (ascending)  sid:received:credited:forfeited:held:registered(0/1)
        then "|" received_conn credited_conn forfeited_conn held_conn closing legal
   cfg <cw> <sw>   Configuration(...) then connection_made
     -> reject | h2error | ok <wu|-> <iws|-> <advertised conn> <advertised stream>
   raw <cw> <sw>   connection_made without the Configuration validators
     -> h2error | ok <wu|-> <iws|-> <advertised conn> <advertised stream>
*)
let zi = z_of_int
let iz = int_of_z
let split_colon w = String.split_on_char ':' w
let parse_event w =
  match split_colon w with
  | ["O"; s] -> Open (zi (int_of_string s))
  | ["D"; s; n; "-"] -> Data (zi (int_of_string s), zi (int_of_string n), None)
  | ["D"; s; n; p] -> Data (zi (int_of_string s), zi (int_of_string n), Some (zi (int_of_string p)))
  | ["E"; s] -> EndStream (zi (int_of_string s))
  | ["R"; s; n] -> Read (zi (int_of_string s), zi (int_of_string n))
  | ["W"; s] -> Wake (zi (int_of_string s))
  | ["C"; s] -> Cancel (zi (int_of_string s))
  | ["X"; s] -> Release (zi (int_of_string s))
  | ["Z"] -> Close
  | ["P"] -> Pause
  | ["Q"] -> Resume
  | _ -> failwith ("bad event " ^ w)
let sid_of = function
  | Open s | Data (s, _, _) | EndStream s | Read (s, _) | Wake s | Cancel s | Release s -> Some (iz s)
  | Close | Pause | Resume -> None
let show_res = function
  | RData -> "data" | REof -> "eof" | REmpty -> "empty" | RAssert -> "assert" | RBadSize -> "badsize"
  | RBusy -> "busy" | RNoStream -> "nostream"
let show_out = function
  | ORecv (s, k) -> Printf.sprintf "r%d:%d" (iz s) (iz k)
  | OAck (s, k) -> Printf.sprintf "a%d:%d" (iz s) (iz k)
  | ODrop (s, k) -> Printf.sprintf "d%d:%d" (iz s) (iz k)
  | OBlock s -> Printf.sprintf "b%d" (iz s)
  | ORead (s, r) -> Printf.sprintf "R%d:%s" (iz s) (show_res r)
let show_outs = function [] -> "." | os -> String.concat "," (List.map show_out os)
let show_opt = function None -> "-" | Some z -> string_of_int (iz z)
let show_preface = function
  | None -> "h2error"
  | Some p -> Printf.sprintf "ok %s %s %d %d" (show_opt p.wu_incr) (show_opt p.set_iws)
                (iz (advertised_conn p)) (iz (advertised_stream p))

let handle = function
  | "h" :: ws ->
    let evs = List.map parse_event ws in
    let (tr, s) = trace init evs in
    let outs = List.concat tr in
    let sids = List.sort_uniq compare (List.filter_map sid_of evs) in
    let per = List.map (fun x ->
        let z = zi x in
        Printf.sprintf "%d:%d:%d:%d:%d:%d" x (iz (received z outs)) (iz (credited z outs))
          (iz (forfeited z s)) (iz (held z s)) (match lookup_live z s.reg with Some _ -> 1 | None -> 0)) sids in
    String.concat " " (List.map show_outs tr) ^ " | " ^ String.concat " " per ^ " | " ^
    Printf.sprintf "%d %d %d %d %s %s" (iz (received_conn outs)) (iz (credited_conn outs))
      (iz (forfeited_conn s)) (iz (held_conn s)) (word_of_bool s.closing) (word_of_bool (legal init evs))
  | ["cfg"; cw; sw] ->
    let cw = zi (int_of_string cw) and sw = zi (int_of_string sw) in
    (match configure cw sw with
     | None -> "reject"
     | Some (c, s) -> show_preface (connection_made c s))
  | ["raw"; cw; sw] ->
    show_preface (connection_made (zi (int_of_string cw)) (zi (int_of_string sw)))
  | _ -> failwith "unknown command"

let () = main_loop handle
