(* driver for the C10 model (Model/Registry.v): one case per line
     <ncalls> <maxc0> <op>*
   ops:  o:<c>:<es>   COpenTry        e:<c>  CSendEnd      x:<c>  CCancel       X:<c>  CExit
         d:<c>        DeliverC2S      D:<c>  DeliverS2C    S      DeliverSettings
         t:<c>:<nonok> STrailers      r:<c>  SCancel       q:<c>:<ok|err|base>  SExit
         s:<n>        SSettings       K      snapshot marker (no op)
         P  CPause (client pause_writing)   U  CResume (resume_writing)   F  CFlush (a write of the client's
         h2 send buffer that carries frames held back while paused)
   answer: one token per input token:
     op  -> - (done) | O (opened) | B (blocked) | R (refused: the real call raises) | _ (not enabled)
            | E (nothing in flight)
     K   -> [creg,sreg,out,in|waiting|woken|opened|leak|maxc|quiescent|<c-h2><s-h2>,...|held|paused]
            h2 letters: i idle, o open, l half-closed local, r half-closed remote, c closed *)
let split_colon w = String.split_on_char ':' w

let parse_op w =
  match split_colon w with
  | ["o"; c; es] -> COpenTry (nat_of_int (int_of_string c), bool_of_word es)
  | ["e"; c] -> CSendEnd (nat_of_int (int_of_string c))
  | ["x"; c] -> CCancel (nat_of_int (int_of_string c))
  | ["X"; c] -> CExit (nat_of_int (int_of_string c))
  | ["d"; c] -> DeliverC2S (nat_of_int (int_of_string c))
  | ["D"; c] -> DeliverS2C (nat_of_int (int_of_string c))
  | ["S"] -> DeliverSettings
  | ["t"; c; n] -> STrailers (nat_of_int (int_of_string c), bool_of_word n)
  | ["r"; c] -> SCancel (nat_of_int (int_of_string c))
  | ["q"; c; k] -> SExit (nat_of_int (int_of_string c),
                          (match k with "ok" -> KOk | "err" -> KErr | "base" -> KBase
                                      | _ -> failwith "exit kind"))
  | ["s"; n] -> SSettings (z_of_int (int_of_string n))
  | ["P"] -> CPause
  | ["U"] -> CResume
  | ["F"] -> CFlush
  | _ -> failwith ("op " ^ w)

let show_out = function
  | ONone -> "-" | OOpened -> "O" | OBlocked -> "B" | ORaise -> "R" | OSkip -> "_" | OEmpty -> "E"

let h2_letter h = match h2_state h with
  | Idle -> "i" | Open -> "o" | HalfLocal -> "l" | HalfRemote -> "r" | Closed -> "c"

let ints l = String.concat "," (List.map (fun n -> string_of_int (int_of_nat n)) l)

let show_snap s =
  let sn = snap s in
  Printf.sprintf "[%d,%d,%d,%d|%s|%s|%s|%s|%d|%s|%s|%s|%s]"
    (int_of_nat sn.n_creg) (int_of_nat sn.n_sreg) (int_of_nat sn.n_out) (int_of_nat sn.n_in)
    (ints sn.l_waiting) (ints sn.l_woken) (ints sn.l_opened) (ints sn.l_leak)
    (int_of_z sn.v_maxc) (word_of_bool (quiescent s))
    (String.concat "," (List.map (fun k -> h2_letter k.k_ch ^ h2_letter k.k_sh) s.calls))
    (ints sn.l_held) (word_of_bool sn.v_paused)

let handle = function
  | n :: m :: toks ->
    let s = ref (init (nat_of_int (int_of_string n)) (z_of_int (int_of_string m))) in
    let outs = List.map (fun w ->
        if w = "K" then show_snap !s
        else begin
          let (s', o) = step !s (parse_op w) in
          s := s'; show_out o
        end) toks in
    String.concat " " outs
  | _ -> failwith "case"

let () = main_loop handle
