(* driver for the C20 model (Model/Plugin.v): one case per line, one answer line per case.
   Strings travel as comma separated code points, "-" for the empty string.

   req <nfiles> {file} <ngen> {name}
       file   := <name> <package> <ndeps> {dep} <nmsgs> {msg} <nsvcs> {svc}
       msg    := <name> <nnested> {msg}
       svc    := <name> <nmethods> {method}
       method := <name> <cs 0|1> <ss 0|1> <input_type> <output_type>
     -> err KeyError | err StopIteration | err TypeError
      | ok <n> {gfile}
       gfile := F <out name> <source> <nimports> {imp} <nguarded> {imp} <nsvcs> {asvc} <exec>
       asvc  := <name> <nabs> {abs} <nmap> {route func card req rep} <nstub> {attr cls route req rep}
       exec  := X syntax | X unmodelled | X ok <nclasses> {cls}
       cls   := <name> B <nabs> {key} (N | M <n> {route func card req rep})
              | <name> S (N | A <n> {key cls route req rep})
   names <path>   -> <strip_proto> <pb2 module> <grpc module> <output file name>
   card <cs> <ss> -> <member> <client class> <class cardinality> <cs'> <ss'>   ("?" where a table has no entry)
*)

let toks : string list ref = ref []
let next () = match !toks with
  | [] -> failwith "unexpected end of line"
  | w :: r -> toks := r; w
let next_int () = int_of_string (next ())
let next_str () = cps_of_string (next ())
let next_bool () = bool_of_word (next ())
let rec times n f = if n <= 0 then [] else let x = f () in x :: times (n - 1) f
let counted f = let n = next_int () in times n f

let rec parse_msg () =
  let name = next_str () in
  let nested = counted parse_msg in
  Msg (name, nested)

let parse_method () =
  let name = next_str () in
  let cs = next_bool () in
  let ss = next_bool () in
  let i = next_str () in
  let o = next_str () in
  { me_name = name; me_cs = cs; me_ss = ss; me_in = i; me_out = o }

let parse_service () =
  let name = next_str () in
  let ms = counted parse_method in
  { sv_name = name; sv_methods = ms }

let parse_file () =
  let name = next_str () in
  let pkg = next_str () in
  let deps = counted next_str in
  let msgs = counted parse_msg in
  let svcs = counted parse_service in
  { f_name = name; f_package = pkg; f_deps = deps; f_msgs = msgs; f_services = svcs }

let parse_request () =
  let files = counted parse_file in
  let gen = counted next_str in
  { r_files = files; r_gen = gen }

let s = string_of_cps
let cnt l = string_of_int (List.length l)

let show_entry e = [s e.e_route; s e.e_func; s e.e_card; s e.e_req; s e.e_rep]
let show_stub t = [s t.s_attr; s t.s_cls; s t.s_route; s t.s_req; s t.s_rep]

let show_aservice a =
  [s a.as_name; cnt a.as_abstract] @ List.map s a.as_abstract @
  [cnt a.as_mapping] @ List.concat_map show_entry a.as_mapping @
  [cnt a.as_stub] @ List.concat_map show_stub a.as_stub

let show_class (name, c) = match c with
  | CBase b ->
    [s name; "B"; cnt b.eb_abstract] @ List.map s b.eb_abstract @
    (match b.eb_mapping with
     | Err _ -> ["N"]
     | Ok rows -> ["M"; cnt rows] @ List.concat_map (fun (_, e) -> show_entry e) rows)
  | CStub st ->
    [s name; "S"] @
    (match st with
     | Err _ -> ["N"]
     | Ok rows -> ["A"; cnt rows] @
                  List.concat_map (fun (k, t) -> [s k; s t.s_cls; s t.s_route; s t.s_req; s t.s_rep]) rows)

let show_exec m = match exec_module m with
  | Err ESyntaxError -> ["X"; "syntax"]
  | Err EUnmodelled -> ["X"; "unmodelled"]
  | Ok cls -> ["X"; "ok"; cnt cls] @ List.concat_map show_class cls

let show_gfile (name, m) =
  ["F"; s name; s m.a_source; cnt m.a_imports] @ List.map s m.a_imports @
  [cnt m.a_guarded] @ List.map s m.a_guarded @
  [cnt m.a_classes] @ List.concat_map show_aservice m.a_classes @ show_exec m

let opt f = function Some x -> f x | None -> "?"

let handle = function
  | "req" :: rest ->
    toks := rest;
    let req = parse_request () in
    if !toks <> [] then failwith "trailing words";
    (match main req with
     | Err EKeyError -> "err KeyError"
     | Err EStopIteration -> "err StopIteration"
     | Err ETypeError -> "err TypeError"
     | Ok files -> String.concat " " (["ok"; cnt files] @ List.concat_map show_gfile files))
  | ["names"; p] ->
    let p = cps_of_string p in
    String.concat " " [s (strip_proto p); s (pb2_module_name p); s (grpc_module_name p); s (out_file_name p)]
  | ["card"; cs; ss] ->
    let member = cardinality_of (bool_of_word cs) (bool_of_word ss) in
    let cls = match member with Some m -> method_cls m | None -> None in
    let ccard = match cls with Some c -> class_cardinality c | None -> None in
    let flags = match ccard with Some c -> member_flags c | None -> None in
    String.concat " " [opt s member; opt s cls; opt s ccard;
                       opt (fun (a, _) -> word_of_bool a) flags; opt (fun (_, b) -> word_of_bool b) flags]
  | _ -> failwith "unknown command"

let () = main_loop handle
