(* driver for the C02 model: one case per line
   int <cps>                                   -> none | some <hex>
   hdr <codec01> <pbit01> <csub-cps> <n> (<k-cps> <v-cps>)*
        -> <st: 200|code> <ct: ok|missing|bad> <gs: absent|invalid|valid:k> <msg: none|h:cps>
           <details: absent|ok|undecodable> <md: ok|binascii|unicode>
   run <c|o> <cs01> <ss01> <prog: - | RI,RM,..> <codec01> <csub-cps> <lis: 3 bits init,msg,trail> <nbatches>
       { <trig: B|L|k> <nevents> { H <end01> <pbit01> <n> (<k> <v>)* | D <end01> | T <pbit01> <n> (<k> <v>)*
                                | R | G | L } }
        -> <obs> | <defect: - or d2c,d2g,..> | <spec: 0|1>
     obs = ok <n> | grpc <status> <client|none|h:cps> <absent|ok|undecodable> | terminated | protocol
         | assertion | binascii | unicode | hang | internal *)
let rec take_pairs n ws acc =
  if n = 0 then (List.rev acc, ws) else
  match ws with
  | k :: v :: r -> take_pairs (n - 1) r ((cps_of_string k, cps_of_string v) :: acc)
  | _ -> failwith "pairs"

let show_details = function DAbsent -> "absent" | DOk -> "ok" | DUndecodable -> "undecodable"

let show_obs = function
  | OOk n -> "ok " ^ string_of_int (int_of_nat n)
  | OGrpc (st, m, d) ->
    "grpc " ^ string_of_int (int_of_z st) ^ " " ^
    (match m with MClient -> "client" | MNone -> "none" | MHeader raw -> "h:" ^ string_of_cps raw) ^ " " ^
    show_details d
  | OTerminated -> "terminated" | OProtocol -> "protocol" | OAssertion -> "assertion"
  | OBinascii -> "binascii" | OUnicode -> "unicode" | OHang -> "hang" | OInternal -> "internal"

let parse_op = function
  | "RI" -> RI | "RM" -> RM | "IT" -> IT | "RT" -> RT | _ -> failwith "op"

let rec parse_events n ws acc =
  if n = 0 then (List.rev acc, ws) else
  match ws with
  | "H" :: e :: p :: cnt :: r ->
    let (hs, r') = take_pairs (int_of_string cnt) r [] in
    parse_events (n - 1) r' (CH (hs, bool_of_word p, bool_of_word e) :: acc)
  | "D" :: e :: r -> parse_events (n - 1) r (CD (bool_of_word e) :: acc)
  | "T" :: p :: cnt :: r ->
    let (ts, r') = take_pairs (int_of_string cnt) r [] in
    parse_events (n - 1) r' (CT (ts, bool_of_word p) :: acc)
  | "R" :: r -> parse_events (n - 1) r (CRst :: acc)
  | "G" :: r -> parse_events (n - 1) r (CGoaway :: acc)
  | "L" :: r -> parse_events (n - 1) r (CLost :: acc)
  | _ -> failwith "event"

let rec parse_batches n ws acc =
  if n = 0 then (List.rev acc, ws) else
  match ws with
  | tr :: cnt :: r ->
    let trig = if tr = "B" then TB else if tr = "L" then TL else TS (nat_of_int (int_of_string tr)) in
    let (evs, r') = parse_events (int_of_string cnt) r [] in
    parse_batches (n - 1) r' ({ cb_trig = trig; cb_events = evs } :: acc)
  | _ -> failwith "batch"

let handle = function
  | ["int"; s] -> (match py_int (cps_of_string s) with None -> "none" | Some v -> "some " ^ hex_of_z v)
  | "hdr" :: codec :: pbit :: csub :: cnt :: rest ->
    let (hs, _) = take_pairs (int_of_string cnt) rest [] in
    let st = (match http_status_error hs with None -> "200" | Some c -> string_of_int (int_of_z c)) in
    let ct = (match content_type_class (cps_of_string csub) hs with
        | CtOk -> "ok" | CtMissing -> "missing" | CtBad -> "bad") in
    let gs = (match grpc_status_val hs with
        | GsvAbsent -> "absent" | GsvInvalid -> "invalid"
        | GsvValid k -> "valid:" ^ string_of_int (int_of_z k)) in
    let msg = (match dict_get k_GM hs with None -> "none" | Some raw -> "h:" ^ string_of_cps raw) in
    let det = show_details (details_of (bool_of_word codec) (bool_of_word pbit) hs) in
    let md = (match decode_metadata hs with
        | Ok _ -> "ok" | Err DBinascii -> "binascii" | Err DUnicode -> "unicode") in
    String.concat " " [st; ct; gs; msg; det; md]
  | "run" :: variant :: cs :: ss :: prog :: codec :: csub :: lbits :: nb :: rest ->
    let lis = { l_init = lbits.[0] = '1'; l_msg = lbits.[1] = '1'; l_trail = lbits.[2] = '1' } in
    let ops = if prog = "-" then [] else List.map parse_op (String.split_on_char ',' prog) in
    let k = if variant = "c" then Call (bool_of_word cs, bool_of_word ss)
      else Open (bool_of_word cs, bool_of_word ss, ops) in
    let (bs, _) = parse_batches (int_of_string nb) rest [] in
    let csub = cps_of_string csub in
    let o = observe csub (bool_of_word codec) lis k bs in
    let abs_ = alpha csub bs in
    let ds = List.filter_map (fun (n, f) -> if f k abs_ then Some n else None)
        [("d2c", d2c); ("d2d", d2d); ("d2g", d2g)] in
    show_obs o ^ " | " ^ (if ds = [] then "-" else String.concat "," ds) ^ " | " ^
    word_of_bool (spec_allows abs_ (outcome lis k abs_))
  | _ -> failwith "unknown command"

let () = main_loop handle
