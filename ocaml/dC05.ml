(* driver for the C05 models.  One case per line.
   CLIENT
     C <n0> <timeout|-> <explicit|-> <horizon> <k> (<kind> <instant|never>){k} <m> <spec>{m}
       instants / durations: decimal ticks of 2^-30 s;  kind: 0 connect 1 send_request 2 send_headers
       3 send_data 4 end 5 reset 6 recv_headers 7 recv_message 8 recv_trailers
       spec = op:<name>:<flags9>:<cs><end><dl><gs><gm><se>      name in sr sm en ri rm rt ca
            | exit:<flags9>:<cs><end><dl><gs><gm><se>:<exc><closing>
     -> <phase> <now> <timer|-> <werr> T <task>;... W <wire>;... G <all paths guarded and among
        the syntactic paths of the generated programs: 0|1>
        task = D,<result>,<at> | B,<kind> | R          result = ret | timeout | cancelled | refused
                                                                | error | ext
        wire = <sent at>,<computed at>,<remaining ticks>,<header cps>   (or <sent at>,-,-,- )
   SERVER
     S <arrival bits-hex> <n> <value cps>{n} <dur bits-hex> <fin> <cancel> <trailers_first 0|1>
       <reply path suspends 0|1>
       fin = ret | other | grpc | timeout;  cancel = h | s:<extra bits-hex>:<fin>
     -> <status> <started 0|1> <timer bits|-> <cancel_at bits|-> <end_at bits>
*)
let zi s = z_of_int (int_of_string s)
let oz s = if s = "-" then None else Some (zi s)
let si z = string_of_int (int_of_z z)
let bit s i = s.[i] = '1'
let flags_of s = { f_send_request_done = bit s 0; f_send_message_done = bit s 1; f_end_done = bit s 2;
  f_recv_initial_metadata_done = bit s 3; f_recv_trailing_metadata_done = bit s 4;
  f_cancel_done = bit s 5; f_trailers_only = bit s 6; f_send_initial_metadata_done = bit s 7;
  f_send_trailing_metadata_done = bit s 8 }
let cx_of s = { x_cs = bit s 0; x_end = bit s 1; x_deadline = bit s 2; x_has_gs = bit s 3;
                x_got_msg = bit s 4; x_status_err = bit s 5 }
let op_of = function
  | "sr" -> OpSendRequest | "sm" -> OpSendMessage | "en" -> OpEnd | "ri" -> OpRecvInitialMetadata
  | "rm" -> OpRecvMessage | "rt" -> OpRecvTrailingMetadata | "ca" -> OpCancel | _ -> failwith "op"
let kind_of = function
  | 0 -> WConnect | 1 -> WSendRequest | 2 -> WSendHeaders | 3 -> WSendData | 4 -> WEnd | 5 -> WReset
  | 6 -> WRecvHeaders | 7 -> WRecvMessage | 8 -> WRecvTrailers | _ -> WHook
let kind_code = function
  | WConnect -> 0 | WSendRequest -> 1 | WSendHeaders -> 2 | WSendData -> 3 | WEnd -> 4 | WReset -> 5
  | WRecvHeaders -> 6 | WRecvMessage -> 7 | WRecvTrailers -> 8 | WHook -> 9

(* returns (spec, member of the syntactic paths) *)
let spec_of w =
  match String.split_on_char ':' w with
  | ["op"; name; fl; cx] ->
    let o = op_of name in
    let p = cpath client_ops o (cx_of cx) (flags_of fl) in
    ({ s_path = p; s_fd = false }, List.exists (path_eqb p) (op_flat_paths client_ops o))
  | ["exit"; fl; cx; ec] ->
    let (p, fd) = caexit client_ops (cx_of cx) (flags_of fl) (bit ec 0) (bit ec 1) in
    ({ s_path = p; s_fd = fd },
     List.exists (fun (q, qd) -> path_eqb p q && qd = fd) (aexit_paths client_ops))
  | _ -> failwith "spec"

let exn_str = function
  | KTimeout -> "timeout" | KCancelled -> "cancelled" | KExt _ -> "ext"
  | KProg XProtocolError -> "refused" | KProg _ -> "error"
let task_str t = match t.ts with
  | Done (RReturn, a) -> "D,ret," ^ si a
  | Done (RRaise e, a) -> "D," ^ exn_str e ^ "," ^ si a
  | Blocked -> "B," ^ (match t.waiting with Some w -> string_of_int (kind_code w) | None -> "?")
  | Ready _ -> "R"
let wire_str (a, h) = match h with
  | None -> si a ^ ",-,-,-"
  | Some (c, r) -> si a ^ "," ^ si c ^ "," ^ si r ^ "," ^
                   (match hdr_string r with Ok s -> string_of_cps s | Err _ -> "err")
let phase_str = function NotEntered -> "not_entered" | Entered -> "entered"
                       | EnterFailed -> "enter_failed" | Exited -> "exited"
let join f l = if l = [] then "-" else String.concat ";" (List.map f l)

let rec take_avail k ws acc =
  if k = 0 then (List.rev acc, ws) else
  match ws with
  | kd :: t :: r ->
    take_avail (k - 1) r ((kind_of (int_of_string kd), (if t = "never" then None else Some (zi t))) :: acc)
  | _ -> failwith "avail"

let status_str = function StOK -> "ok" | StUnknown -> "unknown" | StDeadline -> "deadline"
                        | StOwn -> "own" | StNoAnswer -> "none"
let fin_of = function "ret" -> FReturn | "other" -> FRaiseOther | "grpc" -> FRaiseGRPC
                    | "timeout" -> FRaiseTimeout | _ -> failwith "fin"
let fb h = b64_of_bits (z_of_hex h)
let bf f = hex_of_z (bits_of_b64 f)
let obf = function None -> "-" | Some f -> bf f
let rec take k ws acc = if k = 0 then (List.rev acc, ws) else
  match ws with w :: r -> take (k - 1) r (w :: acc) | [] -> failwith "take"

let handle = function
  | "C" :: n0 :: timeout :: explicit :: horizon :: k :: rest ->
    let (avail, rest) = take_avail (int_of_string k) rest [] in
    (match rest with
     | _ :: specs ->
       let sp = List.map spec_of specs in
       let n0 = zi n0 in
       let dl = request_deadline n0 (oz timeout) (oz explicit) in
       let specs = List.map fst sp in
       let g = List.for_all (fun (s, m) -> m && guarded_path s.s_path) sp in
       let s = scenario (nat_of_int 400) avail (zi horizon) n0 dl specs in
       Printf.sprintf "%s %s %s %s T %s W %s G %s"
         (phase_str s.ph) (si s.now) (match s.timer with None -> "-" | Some t -> si t)
         (match s.werr with None -> "-" | Some e -> exn_str e)
         (join task_str s.tasks) (join wire_str s.wire) (if g then "1" else "0")
     | [] -> failwith "specs")
  | "S" :: a :: n :: rest ->
    let (vals, rest) = take (int_of_string n) rest [] in
    (match rest with
     | [dur; fin; cancel; tf; rs] ->
       let ck = match String.split_on_char ':' cancel with
         | ["h"] -> CHonour
         | ["s"; extra; f] -> CSwallow (fb extra, fin_of f)
         | _ -> failwith "cancel" in
       let h = { h_dur = fb dur; h_fin = fin_of fin; h_cancel = ck; h_trailers_first = (tf = "1") } in
       let hs = List.map (fun v -> (grpc_timeout_name, cps_of_string v)) vals in
       let o = serve (fb a) hs h (rs = "1") in
       Printf.sprintf "%s %s %s %s %s" (status_str o.o_status) (if o.o_started then "1" else "0")
         (obf o.o_timer) (obf o.o_cancel_at) (bf o.o_end_at)
     | _ -> failwith "server line")
  | _ -> failwith "unknown command"

let () = main_loop handle
