(* driver for the C07 model (coq/Model/FlowSend.v): one case per line

   <n> <len_1> <win_1> ... <len_n> <win_n> <cw> <iw> <mf> <op>*
     op = ws:<i>:<k>   WINDOW_UPDATE on the stream of sender i
        | wc:<k>       WINDOW_UPDATE on the connection
        | iw:<v>       SETTINGS INITIAL_WINDOW_SIZE
        | mf:<m>       SETTINGS MAX_FRAME_SIZE
        | p | r        pause_writing / resume_writing
        | rst          Stream.reset_nowait() on a stream of the connection that is not a sender
        | of           a peer frame that means nothing to the senders (SETTINGS with other ids)
        | rp           the transport resumes and pauses again from inside the flush write of
                       resume_writing (only if h2 has something queued)
        | run:<i>      one loop iteration of sender i
        | q            FIFO run to quiescence
        | qp:<k>       the same, the transport pausing from inside its k-th write (k >= 1)
   answer: one record per q/qp, joined by ';':
        <i>:<off>:<len>,...|<pcs>|<cw>|<win_1>,...|<mf>|<wready>|<broken>|<transport paused>|<h2 has queued frames>
     pcs: one letter per sender  T C W(aitWrite) U(WaitWindow = waits for an update) D F
   Nothing is computed here: the driver only parses, calls cstep / cfifo and prints. *)
let zi = z_of_int
let iz = int_of_z

let parse_op w =
  match String.split_on_char ':' w with
  | ["rst"] -> `Op ResetAux
  | ["rp"] -> `Op ResumeP
  | ["of"] -> `Op PeerOther
  | ["ws"; i; k] -> `Op (Op (WinStream (nat_of_int (int_of_string i), zi (int_of_string k))))
  | ["wc"; k] -> `Op (Op (WinConn (zi (int_of_string k))))
  | ["iw"; v] -> `Op (Op (SetInitWin (zi (int_of_string v))))
  | ["mf"; m] -> `Op (Op (SetMaxFrame (zi (int_of_string m))))
  | ["p"] -> `Op (Op Pause)
  | ["r"] -> `Op (Op Resume)
  | ["run"; i] -> `Op (Op (Run (nat_of_int (int_of_string i))))
  | ["q"] -> `Q None
  | ["qp"; k] -> `Q (Some (nat_of_int (int_of_string k - 1)))
  | _ -> failwith ("bad op " ^ w)

let pc_letter = function
  | Top -> "T" | CheckWindow -> "C" | WaitWrite -> "W" | WaitWindow -> "U" | Done -> "D"
  | Failed -> "F"

let show_chunks cs =
  String.concat "," (List.map (fun c ->
    Printf.sprintf "%d:%d:%d" (int_of_nat c.c_sid) (iz c.c_off) (iz c.c_len)) cs)

let show c cs =
  let s = c.core in
  Printf.sprintf "%s|%s|%d|%s|%d|%s|%s|%s|%s" (show_chunks cs)
    (String.concat "" (List.map (fun x -> pc_letter x.s_pc) s.senders))
    (iz s.cwin)
    (String.concat "," (List.map (fun x -> string_of_int (iz x.s_win)) s.senders))
    (iz s.mfs) (word_of_bool s.wready) (word_of_bool s.broken) (word_of_bool c.tpaused)
    (word_of_bool c.hq)

let handle ws =
  match ws with
  | n :: rest ->
    let n = int_of_string n in
    let rec take k l acc = if k = 0 then (List.rev acc, l) else
      match l with a :: b :: r -> take (k - 1) r ((zi (int_of_string a), zi (int_of_string b)) :: acc)
                 | _ -> failwith "short case" in
    let cfg, rest = take n rest [] in
    (match rest with
     | cw :: iw :: mf :: ops ->
       let s = ref (cinit cfg (zi (int_of_string cw)) (zi (int_of_string iw)) (zi (int_of_string mf))) in
       let pending = ref [] in       (* chunks emitted by explicit run ops since the last q *)
       let out = ref [] in
       List.iter (fun w ->
         match parse_op w with
         | `Op o -> let (s1, cs) = cstep !s o in s := s1; pending := !pending @ cs
         | `Q b -> let (s1, cs) = cfifo b !s in
                   s := s1; out := show s1 (!pending @ cs) :: !out; pending := []) ops;
       String.concat ";" (List.rev !out)
     | _ -> failwith "short case")
  | _ -> failwith "empty case"

let () = main_loop handle
