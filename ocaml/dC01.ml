(* driver for the C01 models: one case per line, one answer line per case.

   Payloads never travel on the line protocol: both sides generate them from (seed, index, size):
     byte j of message i  =  (seed*7 + i*29 + 11 + (j mod 251)*13) land 255
   and results are reported as <length>.<adler32>.

   buf <seed> <op>*            Buffer level.  ops:  a<len>.<ack>  add the next <len> bytes of the
                               stream "message 0 of the seed" with ack_size <ack>;  e  eof;
                               r<n>  start read(n) (or, when a read is pending, same as s);  s  the blocked reader
                               is scheduled again (no-op without a pending read)
       -> one token per r/s op:  B | D<len>.<adler> | Xassert | Xindex | N   followed by
          :<credits returned by that step, comma separated, - for none>
          and a final token  |<acked_size>,<qsize>,<eof 0/1>,<chunks in the deque>
   recv <seed> <keep> <tailhex> <nmsgs> <size>* <op>*
                               recv_message level.  stream = frames of the generated messages ++
                               tail, cut to <keep> bytes (-1 = all).  ops: a<len>.<ack> | e | r
                               (r = the receiving task is scheduled: starts recv_message when idle)
       -> one token per r:  - | M<len>.<adler> | EOS | Xassert | Xindex | Xstruct | Xnotimpl
          followed by :<credits>, and the same final token
   send <len> <w>.<mf>*        -> <chunk sizes, comma separated or ->;done | ...;rest<k>
   frame <hex>                 -> <hex> | err
   parse <hex>                 -> ok <n> <hex>* | err
*)

let pat_byte seed i j = (seed * 7 + i * 29 + 11 + (j mod 251) * 13) land 255

let gen_msg seed i n = List.init n (fun j -> z_of_int (pat_byte seed i j))

let adler (l : z list) =
  let a = ref 1 and b = ref 0 in
  List.iter (fun x -> a := (!a + (int_of_z x land 255)) mod 65521; b := (!b + !a) mod 65521) l;
  (!b lsl 16) lor !a

let digest l = Printf.sprintf "%d.%d" (List.length l) (adler l)

let split_at n l =
  let rec go k acc l = if k = 0 then (List.rev acc, l) else
      match l with [] -> failwith "stream exhausted" | x :: r -> go (k - 1) (x :: acc) r in
  go n [] l

let credits cr = if cr = [] then "-" else String.concat "," (List.map (fun z -> string_of_int (int_of_z z)) cr)

let summary (s : buf) =
  Printf.sprintf "|%d,%d,%d,%d" (int_of_z s.acked_size) (List.length s.unacked)
    (if s.eof_flag then 1 else 0) (List.length s.acked)

let err_name = function EAssert -> "Xassert" | EIndex -> "Xindex" | EStruct -> "Xstruct"

let parse_add w =
  (* a<len>.<ack> *)
  match String.split_on_char '.' (String.sub w 1 (String.length w - 1)) with
  | [l; a] -> (int_of_string l, int_of_string a)
  | _ -> failwith "bad add token"

(* NOTE: Buffer.add of the model is extracted as [add0] (the name [add] is taken by Nat.add) *)
let run_buf seed ops =
  let stream = ref [] and avail = ref 0 in
  (* the stream is generated lazily in blocks so that its length need not be known up front *)
  let pos = ref 0 in
  let take n =
    let l = List.init n (fun k -> z_of_int (pat_byte seed 0 (!pos + k))) in
    pos := !pos + n; ignore stream; ignore avail; l in
  let st = ref buf_init and pending = ref None and out = ref [] in
  let emit ((s, o), cr) n =
    st := s;
    (match o with
     | RBlocked -> pending := Some n; out := ("B:" ^ credits cr) :: !out
     | RBytes b -> pending := None; out := ("D" ^ digest b ^ ":" ^ credits cr) :: !out
     | RErr e -> pending := None; out := (err_name e ^ ":" ^ credits cr) :: !out) in
  List.iter (fun w ->
      match w.[0] with
      | 'a' -> let (l, a) = parse_add w in st := add0 (take l) (z_of_int a) !st
      | 'e' -> st := eof !st
      | 'r' -> (match !pending with
          | Some n -> emit (read_resume (z_of_int n) !st) n     (* a read is pending: same as s *)
          | None ->
            let n = int_of_string (String.sub w 1 (String.length w - 1)) in
            emit (read_start (z_of_int n) !st) n)
      | 's' -> (match !pending with
          | None -> out := "N:-" :: !out
          | Some n -> emit (read_resume (z_of_int n) !st) n)
      | _ -> failwith "bad op") ops;
  String.concat " " (List.rev (summary !st :: !out))

let run_recv seed keep tail sizes ops =
  let frames = List.concat (List.mapi (fun i n -> frame (gen_msg seed i n)) sizes) in
  let full = frames @ tail in
  let stream = ref (if keep < 0 then full else fst (split_at keep full)) in
  let st = ref buf_init and ph = ref PIdle and out = ref [] in
  List.iter (fun w ->
      match w.[0] with
      | 'a' -> let (l, a) = parse_add w in
        let (d, rest) = split_at l !stream in
        stream := rest; st := add0 d (z_of_int a) !st
      | 'e' -> st := eof !st
      | 'r' ->
        let (((s, p), res), cr) = recv_step !ph !st in
        st := s; ph := p;
        let t = (match res with
            | None -> "-"
            | Some (RMsg m) -> "M" ^ digest m
            | Some REos -> "EOS"
            | Some (RFail e) -> err_name e
            | Some RNotImpl -> "Xnotimpl") in
        out := (t ^ ":" ^ credits cr) :: !out
      | _ -> failwith "bad op") ops;
  String.concat " " (List.rev (summary !st :: !out))

let run_send len obs =
  let obs = List.map (fun w -> match String.split_on_char '.' w with
      | [a; b] -> (z_of_int (int_of_string a), z_of_int (int_of_string b))
      | _ -> failwith "bad observation") obs in
  let (cs, r) = send_sizes obs (z_of_int len) in
  let c = if cs = [] then "-" else String.concat "," (List.map (fun z -> string_of_int (int_of_z z)) cs) in
  match r with
  | None -> c ^ ";done"
  | Some k -> c ^ ";rest" ^ string_of_int (int_of_z k)

let rec take_n n l = if n = 0 then ([], l) else match l with
    | x :: r -> let (a, b) = take_n (n - 1) r in (x :: a, b)
    | [] -> failwith "too few words"

let handle = function
  | "buf" :: seed :: ops -> run_buf (int_of_string seed) ops
  | "recv" :: seed :: keep :: tail :: n :: rest ->
    let (sizes, ops) = take_n (int_of_string n) rest in
    run_recv (int_of_string seed) (int_of_string keep) (bytes_of_hex tail)
      (List.map int_of_string sizes) ops
  | "send" :: len :: obs -> run_send (int_of_string len) obs
  | ["frame"; h] -> (match send_frame (bytes_of_hex h) with Some f -> hex_of_bytes f | None -> "err")
  | ["parse"; h] -> (match parse_frames (bytes_of_hex h) with
      | Some ms -> String.concat " " ("ok" :: string_of_int (List.length ms) :: List.map hex_of_bytes ms)
      | None -> "err")
  | _ -> failwith "unknown command"

(* The extracted list functions (app, length, firstn, ...) are not tail recursive; cases with
   payloads of a few hundred KiB need more than the default 8 MiB stack.  The binary re-executes
   itself once under a raised stack limit; stdin/stdout are inherited untouched. *)
let () =
  if Array.length Sys.argv > 1 && Sys.argv.(1) = "--child" then main_loop handle
  else
    exit (Sys.command (Printf.sprintf
                         "ulimit -s unlimited 2>/dev/null || ulimit -s 4000000 2>/dev/null; exec %s --child"
                         (Filename.quote Sys.executable_name)))
