(* driver for the C11 model (Model/Mux.v): one case per line
   mux   <C|S> <events with '|' between reads>  -> raised=<n> closed=<b> wr=<b> slot=<b> out=<outs> reg=<calls>
   solo  <sid> <C|S> <events>                   -> <call> | none     (only the events call <sid> can see)
   alone <sid> <C|S> <events>                   -> <call> | none     (only the events addressed to <sid>)
   wake  <wr> <window> <max_frame> <remaining> <wu>  -> <wait_wr|wait_win|send:n> wu=<b>
   events:  REQ i hex | RESP i hex | DATA i hex fcl | TRL i hex | END i | RST i remote code | WU i
            SET iw mcs | SACK | PRIO | PING | PACK | UNK | GOAWAY code | PERR | LOST | CLOSE | PAUSE | RESUME
            REG i | REL i | ATT i | DL i | CANCEL i | READ i | WAIT i
   call:    sid/req/headers/queue/eof/trailers/wu/hr/tr/wrapper/error/in_tasks/cancels
   Nothing here computes anything about the model: parsing and printing only. *)
let zi w = z_of_int (int_of_string w)
let b w = bool_of_word w

let rec parse_events acc cur = function
  | [] -> List.rev (if cur = [] then acc else List.rev cur :: acc)
  | "|" :: r -> parse_events (List.rev cur :: acc) [] r
  | "REQ" :: i :: h :: r -> parse_events acc (ERequest (zi i, bytes_of_hex h) :: cur) r
  | "RESP" :: i :: h :: r -> parse_events acc (EResponse (zi i, bytes_of_hex h) :: cur) r
  | "DATA" :: i :: h :: f :: r -> parse_events acc (EData (zi i, bytes_of_hex h, zi f) :: cur) r
  | "TRL" :: i :: h :: r -> parse_events acc (ETrailers (zi i, bytes_of_hex h) :: cur) r
  | "END" :: i :: r -> parse_events acc (EEnded (zi i) :: cur) r
  | "RST" :: i :: rm :: c :: r -> parse_events acc (EReset (zi i, b rm, zi c) :: cur) r
  | "WU" :: i :: r -> parse_events acc (EWindow (zi i) :: cur) r
  | "SET" :: iw :: mcs :: r -> parse_events acc (ESettings (b iw, b mcs) :: cur) r
  | "SACK" :: r -> parse_events acc (ESettingsAck :: cur) r
  | "PRIO" :: r -> parse_events acc (EPriority :: cur) r
  | "PING" :: r -> parse_events acc (EPing :: cur) r
  | "PACK" :: r -> parse_events acc (EPingAck :: cur) r
  | "UNK" :: r -> parse_events acc (EUnknown :: cur) r
  | "GOAWAY" :: c :: r -> parse_events acc (EGoaway (zi c) :: cur) r
  | "PERR" :: r -> parse_events acc (EProtocolError :: cur) r
  | "LOST" :: r -> parse_events acc (EConnLost :: cur) r
  | "CLOSE" :: r -> parse_events acc (EChannelClose :: cur) r
  | "PAUSE" :: r -> parse_events acc (EPause :: cur) r
  | "RESUME" :: r -> parse_events acc (EResume :: cur) r
  | "REG" :: i :: r -> parse_events acc (ARegister (zi i) :: cur) r
  | "REL" :: i :: r -> parse_events acc (ARelease (zi i) :: cur) r
  | "ATT" :: i :: r -> parse_events acc (AAttach (zi i) :: cur) r
  | "DL" :: i :: r -> parse_events acc (ADeadline (zi i) :: cur) r
  | "CANCEL" :: i :: r -> parse_events acc (ACancel (zi i) :: cur) r
  | "READ" :: i :: r -> parse_events acc (ARead (zi i) :: cur) r
  | "WAIT" :: i :: r -> parse_events acc (AWaitWindow (zi i) :: cur) r
  | w :: _ -> failwith ("unknown event word " ^ w)

let side_of = function "C" -> Client | "S" -> Server | w -> failwith ("side " ^ w)

let show_opt = function None -> "N" | Some p -> "h" ^ hex_of_bytes p
let show_item = function QData (d, a) -> "d:" ^ hex_of_bytes d ^ ":" ^ string_of_int (int_of_z a) | QEof -> "E"
let show_queue q = if q = [] then "_" else String.concat "," (List.map show_item q)
let show_err = function
  | None -> "N"
  | Some (RRemoteReset c) -> "rr:" ^ string_of_int (int_of_z c)
  | Some RProtocolError -> "pe"
  | Some (RGoaway c) -> "ga:" ^ string_of_int (int_of_z c)
  | Some RConnLost -> "cl"
  | Some RConnClosed -> "cc"
  | Some RDeadline -> "dl"
let show_call i c =
  String.concat "/" [ string_of_int (int_of_z i); show_opt c.cs_req; show_opt c.cs_headers;
    show_queue c.cs_queue; word_of_bool c.cs_eof; show_opt c.cs_trailers; word_of_bool c.cs_wu;
    word_of_bool c.cs_hr; word_of_bool c.cs_tr; word_of_bool c.cs_wrapper; show_err c.cs_error;
    word_of_bool c.cs_in_tasks; string_of_int (int_of_nat c.cs_cancels) ]
let show_out = function
  | OAck (i, n) -> "ack:" ^ string_of_int (int_of_z i) ^ ":" ^ string_of_int (int_of_z n)
  | ORst i -> "rst:" ^ string_of_int (int_of_z i)

let handle = function
  | "mux" :: sd :: rest ->
    let bs = parse_events [] [] rest in
    let ((s, outs), nr) = run_batches bs (init (side_of sd)) [] O in
    Printf.sprintf "raised=%d closed=%s wr=%s slot=%s out=%s reg=%s" (int_of_nat nr)
      (word_of_bool s.st_conn.c_closed) (word_of_bool s.st_conn.c_write_ready)
      (word_of_bool s.st_conn.c_slot_wake)
      (if outs = [] then "_" else String.concat "," (List.map show_out outs))
      (if s.st_reg = [] then "_" else String.concat ";" (List.map (fun (i, c) -> show_call i c) s.st_reg))
  | "solo" :: i :: sd :: rest ->
    let es = List.concat (parse_events [] [] rest) in
    (match solo (zi i) (side_of sd) es with Some c -> show_call (zi i) c | None -> "none")
  | "alone" :: i :: sd :: rest ->
    let es = List.concat (parse_events [] [] rest) in
    (match project (zi i) (run (filter (addressed (zi i)) es) (init (side_of sd))) with
     | Some c -> show_call (zi i) c | None -> "none")
  | ["wake"; wr; win; mf; rem; wu] ->
    let c = { (new_call None true false) with cs_wu = b wu } in
    let (c', a) = sender_wake (b wr) (zi win) (zi mf) (zi rem) c in
    (match a with SWaitWriteReady -> "wait_wr" | SWaitWindow -> "wait_win"
                | SSend n -> "send:" ^ string_of_int (int_of_z n)) ^ " wu=" ^ word_of_bool c'.cs_wu
  | _ -> failwith "unknown command"

let () = main_loop handle
